//! vh - the verification harness: replays specification-generated cases on the real
//! StyLua code and records ndjson traces.
mod calls;
mod decode;
mod lex;
mod libcase;
mod litcase;
mod obs;
mod project;
mod render;
mod stmts;

use serde_json::{json, Value};
use std::io::{BufRead, BufReader, Write};
use std::process::{Command, Stdio};
use std::sync::atomic::{AtomicU64, Ordering};
use std::sync::{Arc, Mutex};
use std::time::{Duration, Instant};

/// serde_json's default recursion limit (128) is too small for nesting ladders
fn parse_deep(line: &str) -> Result<Value, serde_json::Error> {
    use serde::Deserialize;
    let mut de = serde_json::Deserializer::from_str(line);
    de.disable_recursion_limit();
    Value::deserialize(&mut de)
}

fn arg(args: &[String], name: &str) -> Option<String> {
    args.iter().position(|a| a == name).and_then(|i| args.get(i + 1).cloned())
}

static CASE_START_MS: AtomicU64 = AtomicU64::new(0);
static CASE_INDEX: AtomicU64 = AtomicU64::new(u64::MAX);

fn now_ms(t0: Instant) -> u64 {
    t0.elapsed().as_millis() as u64 + 1
}

/// worker: process lines [skip..] of the case file, append events to out. Before each case a
/// marker line {"ev":"Begin","idx":i} is written so that the parent can attribute a crash.
fn worker(args: &[String]) -> i32 {
    let cases = arg(args, "--cases").expect("--cases");
    let outp = arg(args, "--out").expect("--out");
    let skip: usize = arg(args, "--skip").map(|s| s.parse().unwrap()).unwrap_or(0);
    let stride: usize = arg(args, "--stride").map(|s| s.parse().unwrap()).unwrap_or(1);
    let offset: usize = arg(args, "--offset").map(|s| s.parse().unwrap()).unwrap_or(0);
    let timeout_s: u64 = arg(args, "--timeout").map(|s| s.parse().unwrap()).unwrap_or(60);
    // panics are data (caught around every format call); VH_PANIC=1 prints them, for debugging the harness itself
    if std::env::var("VH_PANIC").is_err() {
        std::panic::set_hook(Box::new(|_| {}));
    }
    let t0 = Instant::now();
    let out = Arc::new(Mutex::new(std::fs::OpenOptions::new().create(true).append(true).open(&outp).expect("open out")));
    // watchdog
    {
        let out = out.clone();
        std::thread::spawn(move || loop {
            std::thread::sleep(Duration::from_millis(500));
            let st = CASE_START_MS.load(Ordering::SeqCst);
            if st != 0 && now_ms(t0) > st + timeout_s * 1000 {
                let idx = CASE_INDEX.load(Ordering::SeqCst);
                let mut f = out.lock().unwrap();
                let _ = writeln!(f, "{}", json!({"ev": "Timeout", "idx": idx, "wall_s": timeout_s}));
                let _ = f.flush();
                std::process::exit(97);
            }
        });
    }
    let f = BufReader::new(std::fs::File::open(&cases).expect("open cases"));
    let handle = std::thread::Builder::new()
        .stack_size(8 * 1024 * 1024)
        .spawn(move || {
            for (i, line) in f.lines().enumerate() {
                if i % stride != offset || i < skip {
                    continue;
                }
                let line = line.expect("read");
                if line.trim().is_empty() {
                    continue;
                }
                {
                    let mut o = out.lock().unwrap();
                    writeln!(o, "{}", json!({"ev": "Begin", "idx": i})).unwrap();
                    o.flush().unwrap();
                }
                CASE_INDEX.store(i as u64, Ordering::SeqCst);
                CASE_START_MS.store(now_ms(t0), Ordering::SeqCst);
                let evs = match parse_deep(&line) {
                    Ok(case) => {
                        if case.get("kind").and_then(|k| k.as_str()).map_or(false, |k| k.ends_with("lit")) {
                            litcase::process(&case)
                        } else {
                            libcase::process(&case)
                        }
                    }
                    Err(e) => vec![json!({"ev": "ToolError", "msg": format!("bad case json line {}: {}", i, e)})],
                };
                CASE_START_MS.store(0, Ordering::SeqCst);
                let mut o = out.lock().unwrap();
                for mut e in evs {
                    e["idx"] = json!(i);
                    writeln!(o, "{}", e).unwrap();
                }
                writeln!(o, "{}", json!({"ev": "End", "idx": i})).unwrap();
                o.flush().unwrap();
            }
        })
        .unwrap();
    match handle.join() {
        Ok(_) => 0,
        Err(_) => 98,
    }
}

/// parent: run `jobs` workers over strided partitions; restart after crashes.
fn replay(args: &[String]) -> i32 {
    let cases = arg(args, "--cases").expect("--cases");
    let outp = arg(args, "--out").expect("--out");
    let jobs: usize = arg(args, "--jobs").map(|s| s.parse().unwrap()).unwrap_or(14);
    let timeout_s = arg(args, "--timeout").unwrap_or("60".into());
    let exe = std::env::current_exe().unwrap();
    let ncases = BufReader::new(std::fs::File::open(&cases).expect("cases")).lines().count();
    let mut handles = Vec::new();
    for j in 0..jobs {
        let exe = exe.clone();
        let cases = cases.clone();
        let part = format!("{}.part{}", outp, j);
        let _ = std::fs::remove_file(&part);
        let timeout_s = timeout_s.clone();
        handles.push(std::thread::spawn(move || {
            let mut skip = 0usize;
            let mut restarts = 0;
            loop {
                let st = Command::new(&exe)
                    .args(["worker", "--cases", &cases, "--out", &part, "--skip", &skip.to_string(), "--stride", &jobs.to_string(), "--offset", &j.to_string(), "--timeout", &timeout_s])
                    .stdin(Stdio::null())
                    .stderr(Stdio::null())
                    .status()
                    .expect("spawn worker");
                if st.success() {
                    break;
                }
                // find last Begin without End
                let txt = std::fs::read_to_string(&part).unwrap_or_default();
                let mut last_begin: Option<u64> = None;
                let mut ended = true;
                let mut timed_out = false;
                for l in txt.lines() {
                    if let Ok(v) = parse_deep(l) {
                        match v["ev"].as_str() {
                            Some("Begin") => {
                                last_begin = v["idx"].as_u64();
                                ended = false;
                            }
                            Some("End") => ended = true,
                            Some("Timeout") => timed_out = true,
                            _ => {}
                        }
                    }
                }
                if let (Some(b), false) = (last_begin, ended) {
                    let mut f = std::fs::OpenOptions::new().append(true).open(&part).unwrap();
                    if !timed_out {
                        use std::os::unix::process::ExitStatusExt;
                        writeln!(f, "{}", json!({"ev": "Crash", "idx": b, "signal": st.signal().unwrap_or(0), "code": st.code().unwrap_or(-1)})).unwrap();
                    }
                    writeln!(f, "{}", json!({"ev": "End", "idx": b})).unwrap();
                    skip = b as usize + 1;
                } else {
                    // died outside a case: tool error
                    let mut f = std::fs::OpenOptions::new().append(true).open(&part).unwrap();
                    writeln!(f, "{}", json!({"ev": "ToolError", "msg": format!("worker died outside a case: {:?}", st)})).unwrap();
                    break;
                }
                restarts += 1;
                if restarts > 10000 {
                    break;
                }
            }
        }));
    }
    for h in handles {
        h.join().unwrap();
    }
    // merge parts in case order
    let mut by_idx: Vec<Vec<String>> = vec![Vec::new(); ncases];
    let mut extra: Vec<String> = Vec::new();
    for j in 0..jobs {
        let part = format!("{}.part{}", outp, j);
        if let Ok(txt) = std::fs::read_to_string(&part) {
            for l in txt.lines() {
                let v: Value = match parse_deep(l) {
                    Ok(v) => v,
                    Err(_) => {
                        extra.push(json!({"ev": "ToolError", "msg": "unparseable event line from worker"}).to_string());
                        continue;
                    }
                };
                match v["ev"].as_str() {
                    Some("Begin") | Some("End") => {}
                    _ => match v["idx"].as_u64() {
                        Some(i) if (i as usize) < ncases => by_idx[i as usize].push(l.to_string()),
                        _ => extra.push(l.to_string()),
                    },
                }
            }
        }
        let _ = std::fs::remove_file(&part);
    }
    let mut o = std::io::BufWriter::new(std::fs::File::create(&outp).expect("create out"));
    for v in by_idx {
        for l in v {
            writeln!(o, "{}", l).unwrap();
        }
    }
    for l in extra {
        writeln!(o, "{}", l).unwrap();
    }
    0
}

fn main() {
    let args: Vec<String> = std::env::args().collect();
    let code = match args.get(1).map(|s| s.as_str()) {
        Some("worker") => worker(&args),
        Some("replay") => replay(&args),
        Some("render") => {
            // render one case from stdin, print src
            let mut s = String::new();
            std::io::stdin().read_line(&mut s).unwrap();
            let case: Value = serde_json::from_str(&s).unwrap();
            let tree: project::Node = serde_json::from_value(case["tree"].clone()).unwrap();
            let lay: render::Layout = serde_json::from_value(case["layout"].clone()).unwrap_or_default();
            print!("{}", render::render(&tree, &lay));
            0
        }
        Some("libfmt") => {
            // stdin: JSON lines {id, src, cfg, range?, verify?}; stdout: JSON lines {id, outcome, out}
            // panics are data (caught around every format call); VH_PANIC=1 prints them, for debugging the harness itself
    if std::env::var("VH_PANIC").is_err() {
        std::panic::set_hook(Box::new(|_| {}));
    }
            let stdin = std::io::stdin();
            let stdout = std::io::stdout();
            let mut o = stdout.lock();
            for line in stdin.lock().lines() {
                let line = line.unwrap();
                if line.trim().is_empty() {
                    continue;
                }
                let v: Value = serde_json::from_str(&line).unwrap();
                let cfg = match libcase::parse_cfg(v.get("cfg").unwrap_or(&Value::Null)) {
                    Ok(c) => c,
                    Err(e) => {
                        writeln!(o, "{}", json!({"id": v["id"], "outcome": "bad_cfg", "msg": e})).unwrap();
                        continue;
                    }
                };
                let range = v.get("range").and_then(|r| if r.is_null() { None } else { Some(stylua_lib::Range::from_values(r["start"].as_u64().map(|x| x as usize), r["end"].as_u64().map(|x| x as usize))) });
                let (oc, _) = libcase::run_format(v["src"].as_str().unwrap_or(""), cfg, range, v["verify"].as_bool().unwrap_or(false));
                let j = match oc {
                    libcase::Outcome::Ok(s) => json!({"id": v["id"], "outcome": "ok", "out": s}),
                    libcase::Outcome::ParseError(m) => json!({"id": v["id"], "outcome": "parse_error", "msg": m}),
                    libcase::Outcome::OtherError(m) => json!({"id": v["id"], "outcome": "verify_error", "msg": m}),
                    libcase::Outcome::Panic(m) => json!({"id": v["id"], "outcome": "panic", "msg": m}),
                };
                writeln!(o, "{}", j).unwrap();
            }
            0
        }
        Some("project") => {
            // project a file: vh project <file> <syntax>
            let src = std::fs::read_to_string(&args[2]).unwrap();
            let cfg = libcase::parse_cfg(&json!({"syntax": args.get(3).cloned().unwrap_or("All".into())})).unwrap();
            match libcase::fm_parse(&src, &cfg) {
                Ok(ast) => {
                    println!("{}", serde_json::to_string(&project::p_ast(&ast)).unwrap());
                    0
                }
                Err(e) => {
                    eprintln!("{}", e);
                    1
                }
            }
        }
        _ => {
            eprintln!("usage: vh replay|worker|render|project ...");
            2
        }
    };
    std::process::exit(code);
}
