//! Observations ("facts that need bytes"): comment census, code-token normal form,
//! per-line whitespace classes, string-token table. All from the checker's own lexer.

use crate::decode;
use crate::lex::{self, Kind, Tok};
use serde_json::{json, Value};
use std::collections::BTreeMap;

pub type CKey = (String, usize, String);

pub fn census(src: &str) -> Vec<CKey> {
    let mut v: Vec<CKey> = lex::lex(src).iter().filter(|t| t.is_comment()).map(|t| lex::comment_key(t, src)).collect();
    v.sort();
    v
}

/// bag difference a - b
pub fn bag_diff(a: &[CKey], b: &[CKey]) -> Vec<CKey> {
    let mut m: BTreeMap<&CKey, i64> = BTreeMap::new();
    for x in a {
        *m.entry(x).or_insert(0) += 1;
    }
    for x in b {
        *m.entry(x).or_insert(0) -= 1;
    }
    let mut out = Vec::new();
    for (k, n) in m {
        for _ in 0..n.max(0) {
            out.push(k.clone());
        }
    }
    out
}

pub fn ckeys_json(v: &[CKey]) -> Value {
    Value::Array(v.iter().map(|(k, l, t)| json!([k, l, t])).collect())
}

/// Code-token normal form: names, keywords, operators and decoded literal values in
/// order, with `( ) ; ,` dropped (sound for every allowed rewrite: redundant
/// parentheses, semicolons, separators / trailing commas, call sugar).
pub fn token_nf(src: &str) -> Vec<String> {
    let mut out = Vec::new();
    for t in lex::lex(src) {
        let text = t.text(src);
        match &t.kind {
            Kind::Whitespace | Kind::LineComment | Kind::BlockComment { .. } | Kind::Shebang => {}
            Kind::Number => out.push(format!("N<{}>", decode::num_value(text))),
            Kind::Str { quote, .. } => {
                let d = decode::decode_token(text).map(|b| decode::canon_bytes(&b)).unwrap_or_else(|| text.to_string());
                if *quote == b'`' {
                    out.push(format!("I<{}>", d));
                } else {
                    out.push(format!("S<{}>", d));
                }
            }
            Kind::Symbol => match text {
                "(" | ")" | ";" | "," => {}
                ">>" => {
                    out.push(">".into());
                    out.push(">".into());
                }
                "<<" => {
                    out.push("<".into());
                    out.push("<".into());
                }
                _ => out.push(text.to_string()),
            },
            _ => out.push(text.to_string()),
        }
    }
    out
}

pub fn first_diff(a: &[String], b: &[String]) -> Value {
    let n = a.len().min(b.len());
    for i in 0..n {
        if a[i] != b[i] {
            return json!({"idx": i, "a": a[i], "b": b[i]});
        }
    }
    if a.len() != b.len() {
        return json!({"idx": n, "a": a.get(n).cloned().unwrap_or_default(), "b": b.get(n).cloned().unwrap_or_default()});
    }
    Value::Null
}

/// Byte mask of "string contents" and "block comment interior" positions.
/// mask[i] = 1: inside a string literal (between delimiters); 2: inside a block comment;
/// 0 otherwise.
pub fn byte_mask(src: &str, toks: &[Tok]) -> Vec<u8> {
    let mut m = vec![0u8; src.len() + 1];
    for t in toks {
        match t.kind {
            Kind::Str { .. } => {
                for i in t.start + 1..t.end {
                    m[i] = 1;
                }
            }
            Kind::BlockComment { .. } => {
                for i in t.start + 1..t.end {
                    m[i] = 2;
                }
            }
            _ => {}
        }
    }
    m
}

/// Per-line whitespace records, aggregated into classes.
/// `exempt`: byte ranges (ignored / out-of-range text) whose lines are not judged.
pub fn line_classes(src: &str, exempt: &[(usize, usize)]) -> Value {
    let toks = lex::lex(src);
    let mask = byte_mask(src, &toks);
    let b = src.as_bytes();
    let mut classes: BTreeMap<String, (Value, u64, usize)> = BTreeMap::new();
    let mut i = 0;
    let mut line_no = 0;
    let in_exempt = |a: usize, z: usize| exempt.iter().any(|(s, e)| a < *e && z > *s);
    while i < b.len() {
        line_no += 1;
        let start = i;
        let mut j = i;
        while j < b.len() && b[j] != b'\n' {
            j += 1;
        }
        // line content is b[start..j], terminator b[j] if j < len
        let has_nl = j < b.len();
        let mut content_end = j;
        let ending;
        if has_nl {
            if content_end > start && b[content_end - 1] == b'\r' {
                content_end -= 1;
                ending = "crlf";
            } else {
                ending = "lf";
            }
        } else {
            ending = "none";
        }
        // is the terminator inside a string (its bytes masked as string contents)?
        let end_mask = has_nl && mask[j] == 1 || (ending == "crlf" && mask[content_end] == 1);
        // other CRs in the line outside string contents
        let mut inner_cr = false;
        for k in start..content_end {
            if b[k] == b'\r' && mask[k] != 1 {
                inner_cr = true;
            }
        }
        // leading whitespace
        let mut k = start;
        let (mut tabs, mut spaces, mut other) = (0u32, 0u32, 0u32);
        let mut order_ok = true; // no space-before-tab / tab-before-space mixing
        let mut seen_space = false;
        let mut seen_tab = false;
        while k < content_end && matches!(b[k], b' ' | b'\t' | 0x0b | 0x0c) {
            match b[k] {
                b'\t' => {
                    tabs += 1;
                    if seen_space {
                        order_ok = false;
                    }
                    seen_tab = true;
                }
                b' ' => {
                    spaces += 1;
                    if seen_tab {
                        order_ok = false;
                    }
                    seen_space = true;
                }
                _ => other += 1,
            }
            k += 1;
        }
        let blank = k == content_end;
        let ind_mask = mask[start] != 0; // line starts inside a string or block comment
        let ind_mask_kind = mask[start];
        let trailing_ws = !blank && content_end > start && matches!(b[content_end - 1], b' ' | b'\t') && mask[content_end - 1] == 0 && mask[content_end] == 0;
        let ex = in_exempt(start, j + 1);
        let rec = json!({
            "tabs": tabs, "spaces": spaces, "other": other, "order_ok": order_ok,
            "ending": ending, "inner_cr": inner_cr, "blank": blank,
            "ind_mask": ind_mask, "ind_mask_kind": ind_mask_kind, "end_mask": end_mask, "exempt": ex,
            "trailing_ws": trailing_ws, "last": !has_nl,
        });
        let key = rec.to_string();
        let e = classes.entry(key).or_insert((rec, 0, line_no));
        e.1 += 1;
        i = j + 1;
    }
    // extra layout facts (specification growth beyond the listed properties): blank-line runs
    let mut max_blank_run = 0u32;
    let mut run = 0u32;
    let mut starts_blank = false;
    {
        let mut pos = 0usize;
        let mut first = true;
        for line in src.split('\n') {
            let end = pos + line.len();
            let masked = mask[pos] != 0 || in_exempt(pos, end + 1);
            let is_blank = line.trim_matches(|c| c == ' ' || c == '\t' || c == '\r').is_empty() && end < b.len();
            if is_blank && !masked {
                run += 1;
                if first {
                    starts_blank = true;
                }
            } else {
                run = 0;
            }
            max_blank_run = max_blank_run.max(run);
            first = false;
            pos = end + 1;
            if pos > b.len() {
                break;
            }
        }
    }
    let ends_with_newline = b.last() == Some(&b'\n');
    // count of trailing line endings at EOF
    let mut trail = 0;
    let mut z = b.len();
    loop {
        if z >= 2 && b[z - 1] == b'\n' && b[z - 2] == b'\r' {
            trail += 1;
            z -= 2;
        } else if z >= 1 && (b[z - 1] == b'\n') {
            trail += 1;
            z -= 1;
        } else {
            break;
        }
    }
    json!({
        "classes": classes.into_values().map(|(mut r, n, first)| { r["count"] = json!(n); r["first_line"] = json!(first); r }).collect::<Vec<_>>(),
        "lines": line_no,
        "empty": b.is_empty(),
        "ends_with_newline": ends_with_newline,
        "trailing_newlines": trail,
        "max_blank_run": max_blank_run,
        "starts_blank": starts_blank,
    })
}

/// String-token table of a text: for each string literal token (quoted or long bracket):
/// quote kind, counts of both quote characters in the *decoded* value, decoded value (hex).
pub fn string_table(src: &str) -> Vec<Value> {
    let mut out = Vec::new();
    for t in lex::lex(src) {
        if let Kind::Str { quote, level } = t.kind {
            if quote == b'`' {
                continue;
            }
            let text = t.text(src);
            let d = decode::decode_token(text).unwrap_or_default();
            // quote characters in the RAW body (escaped or not): what needs an escape under each quote
            let body: &[u8] = if quote == b'[' { &[] } else { &text.as_bytes()[1..text.len().saturating_sub(1).max(1)] };
            let ndq = body.iter().filter(|c| **c == b'"').count();
            let nsq = body.iter().filter(|c| **c == b'\'').count();
            out.push(json!({
                "q": (quote as char).to_string(), "level": level, "ndq": ndq, "nsq": nsq,
                "val": decode::hex(&d), "start": t.start, "end": t.end,
            }));
        }
    }
    out
}

pub fn number_table(src: &str) -> Vec<Value> {
    let mut out = Vec::new();
    for t in lex::lex(src) {
        if t.kind == Kind::Number {
            out.push(json!({"raw": t.text(src), "val": decode::num_value(t.text(src))}));
        }
    }
    out
}
