//! Statement-level facts for ignore directives and ranges (C08 / C09 / C12, masks for C10).
//! The harness only extracts facts (spans, directive lines, byte equality of slices between
//! input and the various outputs, matched by structural path); whether a statement was
//! supposed to be verbatim is decided by TLC (spec/Block.tla).
use crate::lex;
use crate::libcase::{fm_parse, run_format, Outcome};
use full_moon::ast::*;
use full_moon::node::Node as FmNode;
use full_moon::tokenizer::{TokenReference, TokenType};
use full_moon::visitors::Visitor;
use serde_json::{json, Value};
use std::collections::HashMap;
use stylua_lib::{Config, Range};

#[derive(Clone, Debug)]
pub struct SRec {
    /// structural path: stmt index, then (block ordinal, stmt index)*; fields use block ordinal 1000+table ordinal
    pub path: Vec<usize>,
    pub kind: String,
    pub start: usize,
    /// exclusive end of the statement's last token
    pub end: usize,
    /// exclusive end including a terminating semicolon (== end when there is none)
    pub end_semi: usize,
    pub semi: bool,
    /// directive lines found in the leading comments, in order: "ignore" | "start" | "end"
    pub dirs: Vec<String>,
    pub marker: String,
}

struct Frame {
    path: Vec<usize>,
    next_stmt: usize,
    semis: Vec<Option<usize>>, // end of semicolon token per statement (incl. last stmt)
}

struct Walker {
    recs: Vec<SRec>,
    blocks: Vec<Frame>,
    /// stack of (path of current stmt, next nested block ordinal, next table ordinal)
    stmts: Vec<(Vec<usize>, usize, usize)>,
}

fn directive_lines<'a>(trivia: impl Iterator<Item = &'a full_moon::tokenizer::Token>) -> Vec<String> {
    let mut out = Vec::new();
    for t in trivia {
        let c = match t.token_type() {
            TokenType::SingleLineComment { comment } => comment.as_str(),
            TokenType::MultiLineComment { comment, .. } => comment.as_str(),
            _ => continue,
        };
        for line in c.lines().map(|l| l.trim()) {
            match line {
                "stylua: ignore" => out.push("ignore".to_string()),
                "stylua: ignore start" => out.push("start".to_string()),
                "stylua: ignore end" => out.push("end".to_string()),
                _ => {}
            }
        }
    }
    out
}

fn span<T: FmNode>(n: &T) -> (usize, usize) {
    match n.range() {
        Some((a, b)) => (a.bytes(), b.bytes()),
        None => (0, 0),
    }
}

fn stmt_kind(s: &Stmt) -> &'static str {
    match s {
        Stmt::Assignment(_) => "assign",
        Stmt::Do(_) => "do",
        Stmt::FunctionCall(_) => "call",
        Stmt::FunctionDeclaration(_) => "function",
        Stmt::GenericFor(_) => "genfor",
        Stmt::If(_) => "if",
        Stmt::LocalAssignment(_) => "local",
        Stmt::LocalFunction(_) => "localfunction",
        Stmt::NumericFor(_) => "numfor",
        Stmt::Repeat(_) => "repeat",
        Stmt::While(_) => "while",
        Stmt::CompoundAssignment(_) => "compound",
        Stmt::Goto(_) => "goto",
        Stmt::Label(_) => "label",
        _ => "other",
    }
}

impl Walker {
    fn enter_stmt(&mut self, kind: &str, start: usize, end: usize, dirs: Vec<String>) {
        let (path, semi_end) = {
            let f = self.blocks.last_mut().expect("stmt outside block");
            let idx = f.next_stmt;
            f.next_stmt += 1;
            let mut p = f.path.clone();
            p.push(idx);
            (p, f.semis.get(idx).cloned().flatten())
        };
        self.recs.push(SRec {
            path: path.clone(),
            kind: kind.to_string(),
            start,
            end,
            end_semi: semi_end.unwrap_or(end),
            semi: semi_end.is_some(),
            dirs,
            marker: String::new(),
        });
        self.stmts.push((path, 0, 0));
    }
}

impl Visitor for Walker {
    fn visit_block(&mut self, b: &Block) {
        let path = match self.stmts.last_mut() {
            Some((p, nb, _)) => {
                let mut q = p.clone();
                q.push(*nb);
                *nb += 1;
                q
            }
            None => vec![],
        };
        let mut semis: Vec<Option<usize>> = b.stmts_with_semicolon().map(|(_, s)| s.as_ref().map(|t| t.token().end_position().bytes())).collect();
        if let Some((_, s)) = b.last_stmt_with_semicolon() {
            semis.push(s.as_ref().map(|t| t.token().end_position().bytes()));
        }
        self.blocks.push(Frame { path, next_stmt: 0, semis });
    }
    fn visit_block_end(&mut self, _b: &Block) {
        self.blocks.pop();
    }
    fn visit_stmt(&mut self, s: &Stmt) {
        let (a, z) = span(s);
        let dirs = directive_lines(s.surrounding_trivia().0.into_iter());
        self.enter_stmt(stmt_kind(s), a, z, dirs);
    }
    fn visit_stmt_end(&mut self, _s: &Stmt) {
        self.stmts.pop();
    }
    fn visit_last_stmt(&mut self, s: &LastStmt) {
        let (a, z) = span(s);
        let dirs = directive_lines(s.surrounding_trivia().0.into_iter());
        let kind = match s {
            LastStmt::Return(_) => "return",
            LastStmt::Break(_) => "break",
            _ => "continue",
        };
        self.enter_stmt(kind, a, z, dirs);
    }
    fn visit_last_stmt_end(&mut self, _s: &LastStmt) {
        self.stmts.pop();
    }
    fn visit_table_constructor(&mut self, t: &TableConstructor) {
        // a table is a "block" of fields
        let path = match self.stmts.last_mut() {
            Some((p, _, nt)) => {
                let mut q = p.clone();
                q.push(1000 + *nt);
                *nt += 1;
                q
            }
            None => vec![1000],
        };
        // separators are not part of a field (the property says so)
        let n = t.fields().len();
        self.blocks.push(Frame { path, next_stmt: 0, semis: vec![None; n] });
    }
    fn visit_table_constructor_end(&mut self, _t: &TableConstructor) {
        self.blocks.pop();
    }
    fn visit_field(&mut self, f: &Field) {
        let (a, z) = span(f);
        let dirs = directive_lines(f.surrounding_trivia().0.into_iter());
        self.enter_stmt("field", a, z, dirs);
    }
    fn visit_field_end(&mut self, _f: &Field) {
        self.stmts.pop();
    }
}

pub fn collect(ast: &Ast) -> Vec<SRec> {
    let mut w = Walker { recs: vec![], blocks: vec![], stmts: vec![] };
    w.visit_ast(ast);
    // EOF pseudo-statement carries directives found before the end of file (not judged)
    w.recs
}

fn eof_leading(ast: &Ast) -> &TokenReference {
    ast.eof()
}

/// README semantics of the ignore directives, used ONLY to compute exempt spans for the
/// whitespace check on corpus-sized outputs (the C08 verdict itself is TLC's).
pub fn ignored_flags(recs: &[SRec]) -> Vec<bool> {
    let mut out = vec![false; recs.len()];
    // state per parent path
    let mut disabled: HashMap<Vec<usize>, bool> = HashMap::new();
    for (i, r) in recs.iter().enumerate() {
        let parent: Vec<usize> = r.path[..r.path.len() - 1].to_vec();
        let anc = recs.iter().enumerate().any(|(j, o)| j != i && out[j] && r.path.len() > o.path.len() && r.path[..o.path.len()] == o.path[..]);
        let d = disabled.entry(parent).or_insert(false);
        for x in &r.dirs {
            if x == "start" {
                *d = true;
            } else if x == "end" {
                *d = false;
            }
        }
        out[i] = anc || *d || r.dirs.iter().any(|x| x == "ignore");
    }
    out
}

pub fn exempt_spans_out(out: &str, cfg: &Config, _range: Option<Range>) -> Vec<(usize, usize)> {
    if !out.contains("stylua: ignore") {
        return vec![];
    }
    match fm_parse(out, cfg) {
        Ok(ast) => {
            let recs = collect(&ast);
            let flags = ignored_flags(&recs);
            // the leading trivia of an ignored node (the directive comment and what surrounds it) is
            // left as written too: exempt from the end of the previous code token
            recs.iter().zip(flags).filter(|(_, f)| *f).map(|(r, _)| (prev_code_end(out, r.start), r.end_semi)).collect()
        }
        Err(_) => vec![],
    }
}

pub struct StmtObs {
    pub json: Value,
    pub exempt_out: Vec<(usize, usize)>,
}

fn index_by_path(recs: &[SRec]) -> HashMap<Vec<usize>, &SRec> {
    recs.iter().map(|r| (r.path.clone(), r)).collect()
}

fn slice<'a>(s: &'a str, r: &SRec, with_semi: bool) -> &'a str {
    let e = if with_semi { r.end_semi } else { r.end };
    s.get(r.start..e).unwrap_or("")
}

/// end of the last code token strictly before byte `pos`
fn prev_code_end(src: &str, pos: usize) -> usize {
    let mut e = 0;
    for t in lex::lex(src) {
        if t.is_trivia() {
            continue;
        }
        if t.end <= pos {
            e = t.end;
        } else {
            break;
        }
    }
    e
}

/// index just past the first line feed at or after `pos` (or the length of the text)
fn line_end_after(src: &str, pos: usize) -> usize {
    let pos = pos.min(src.len());
    src.as_bytes()[pos..].iter().position(|b| *b == b'\n').map_or(src.len(), |i| pos + i + 1)
}

/// where the leading trivia of the end-of-file token start: after the line of the last code token
fn eof_trivia_start(src: &str) -> usize {
    line_end_after(src, prev_code_end(src, src.len()))
}

fn next_code_start(src: &str, pos: usize) -> usize {
    for t in lex::lex(src) {
        if t.is_trivia() {
            continue;
        }
        if t.start >= pos {
            return t.start;
        }
    }
    src.len()
}

/// Resolve a symbolic range marker ("before:<i>", "after:<i>", "last:<i>", "inlast:<i>", "infirst:<i>",
/// "0", "len", "len+1", "max") against the top-level / nested statement list (preorder index).
pub fn resolve_marker(m: &str, recs: &[SRec], len: usize) -> Option<usize> {
    let stmts: Vec<&SRec> = recs.iter().filter(|r| r.kind != "field").collect();
    let pick = |i: &str| -> Option<&SRec> { i.parse::<usize>().ok().and_then(|k| stmts.get(k).cloned()) };
    if let Some(i) = m.strip_prefix("before:") {
        return pick(i).map(|r| r.start);
    }
    if let Some(i) = m.strip_prefix("infirst:") {
        return pick(i).map(|r| r.start + 1);
    }
    if let Some(i) = m.strip_prefix("after:") {
        return pick(i).map(|r| r.end_semi);
    }
    if let Some(i) = m.strip_prefix("last:") {
        return pick(i).map(|r| r.end_semi.saturating_sub(1));
    }
    if let Some(i) = m.strip_prefix("inlast:") {
        return pick(i).map(|r| r.end_semi.saturating_sub(2));
    }
    match m {
        "0" => Some(0),
        "len" => Some(len),
        "len+1" => Some(len + 1),
        "max" => Some(usize::MAX),
        _ => None,
    }
}

pub fn observe(src: &str, out: &str, cfg: &Config, range: Option<Range>, case: &Value) -> StmtObs {
    let mut j = json!({});
    let in_ast = match fm_parse(src, cfg) {
        Ok(a) => a,
        Err(_) => return StmtObs { json: json!({"error": "input does not parse"}), exempt_out: vec![] },
    };
    let in_recs = collect(&in_ast);
    let _ = eof_leading(&in_ast);
    let out_ast = fm_parse(out, cfg);
    let out_recs = out_ast.as_ref().map(collect).unwrap_or_default();
    let out_idx = index_by_path(&out_recs);
    // comparison outputs
    let sort_on = cfg.sort_requires.enabled;
    let mut whole: Option<(String, Vec<SRec>)> = None;
    if range.is_some() {
        if let (Outcome::Ok(w), _) = run_format(src, *cfg, None, false) {
            if let Ok(a) = fm_parse(&w, cfg) {
                let r = collect(&a);
                whole = Some((w, r));
            }
        }
    }
    let mut neutral: Option<(String, Vec<SRec>)> = None;
    if src.contains("stylua: ignore") {
        // same length, so spans of the input stay comparable
        let nsrc = src.replace("stylua: ignore", "stylua: ignorf");
        if let (Outcome::Ok(w), _) = run_format(&nsrc, *cfg, range, false) {
            if let Ok(a) = fm_parse(&w, cfg) {
                let r = collect(&a);
                neutral = Some((w.replace("stylua: ignorf", "stylua: ignore"), r));
            }
        }
    }
    let whole_idx = whole.as_ref().map(|(_, r)| index_by_path(r));
    let neutral_idx = neutral.as_ref().map(|(_, r)| index_by_path(r));
    let mut recs_json = Vec::new();
    for r in &in_recs {
        let o = out_idx.get(&r.path);
        let in_s = slice(src, r, true);
        let mut e = json!({
            "path": r.path, "kind": r.kind, "start": r.start, "end": r.end, "end_semi": r.end_semi, "semi": r.semi,
            "dirs": r.dirs, "found": o.is_some(),
        });
        if let Some(o) = o {
            let out_s = slice(out, o, true);
            e["same_text"] = json!(in_s == out_s);
            e["same_kind"] = json!(o.kind == r.kind);
            e["out_semi"] = json!(o.semi);
            // same text ignoring a lost / added semicolon (classifies the failure, not a pass)
            e["same_text_nosemi"] = json!(slice(src, r, false) == slice(out, o, false));
            if let (Some(wi), Some((w, _))) = (&whole_idx, &whole) {
                if let Some(wr) = wi.get(&r.path) {
                    e["same_as_whole"] = json!(slice(w, wr, false) == slice(out, o, false));
                }
            }
            if let (Some(ni), Some((n, _))) = (&neutral_idx, &neutral) {
                if let Some(nr) = ni.get(&r.path) {
                    e["same_as_neutral"] = json!(slice(n, nr, false) == slice(out, o, false));
                }
            }
        }
        recs_json.push(e);
    }
    j["recs"] = json!(recs_json);
    j["n_in"] = json!(in_recs.len());
    j["n_out"] = json!(out_recs.len());
    j["out_parses"] = json!(out_ast.is_ok());
    j["sort_on"] = json!(sort_on);
    if let Some(rg) = range {
        j["range"] = json!({"start": rg.start.map(|x| x as u64).unwrap_or(0), "has_start": rg.start.is_some(),
            "end": rg.end.map(|x| if x > (1usize << 30) { 1u64 << 30 } else { x as u64 }).unwrap_or(0), "has_end": rg.end.is_some()});
        // the end-of-file token lies in the range (then the comments / blank lines after the last statement's line
        // may be tidied); is everything before them byte-identical?
        let eof_in = rg.end.map_or(true, |e| src.len() <= e) && rg.start.map_or(true, |s| s <= src.len());
        j["range"]["eof_in"] = json!(eof_in);
        j["range"]["body_same"] = json!(src[..eof_trivia_start(src)] == out[..eof_trivia_start(out).min(out.len())]);
        // prefix / suffix facts around the statements the harness can match; TLC picks the ones it needs:
        // for every statement: is the text before it (up to the previous code token) and after it unchanged?
        let mut ps = Vec::new();
        let eof_in_range = rg.end.map_or(true, |e| src.len() <= e) && rg.start.map_or(true, |s| s <= src.len());
        for r in &in_recs {
            if r.kind == "field" {
                continue;
            }
            if let Some(o) = out_idx.get(&r.path) {
                let pi = prev_code_end(src, r.start);
                let po = prev_code_end(out, o.start);
                // the suffix starts where the statement's own line ends, or at the next code token if that comes first
                let si = next_code_start(src, r.end_semi).min(line_end_after(src, r.end_semi));
                let so = next_code_start(out, o.end_semi).min(line_end_after(out, o.end_semi));
                // the end-of-file token (whose leading trivia are the comments and blank lines after the last
                // statement's line) is itself formatted when it lies in the range: its trivia are then not judged
                let (ti, to) = if eof_in_range { (eof_trivia_start(src).max(si), eof_trivia_start(out).max(so)) } else { (src.len(), out.len()) };
                ps.push(json!({"path": r.path, "prefix_same": src[..pi] == out[..po], "suffix_same": src[si..ti] == out[so..to]}));
            }
        }
        j["affix"] = json!(ps);
    }
    j["case_markers"] = case.get("markers").cloned().unwrap_or(Value::Null);
    // exempt spans in the output
    let flags = ignored_flags(&out_recs);
    let exempt: Vec<(usize, usize)> = out_recs.iter().zip(flags).filter(|(_, f)| *f).map(|(r, _)| (prev_code_end(out, r.start), r.end_semi)).collect();
    StmtObs { json: j, exempt_out: exempt }
}

// ------------------------------------------------------------------------------------------
// Facts for require sorting (C12): the top-level statement sequence of input and output.

fn classify_require(stmt: &crate::project::Node) -> (String, String) {
    // (class, NAME)
    let s = if stmt.k == "semi" { &stmt.c[0] } else { stmt };
    if s.k != "local" || s.c[0].c.len() != 1 || s.c[1].c.len() != 1 {
        return ("other".into(), String::new());
    }
    let name = s.c[0].c[0].a.clone();
    let mut e = &s.c[1].c[0];
    while e.k == "cast" {
        e = &e.c[0];
    }
    if e.k == "chain" && e.c.len() >= 2 && e.c[0].k == "name" {
        if e.c[0].a == "require" && e.c[1].k == "call" {
            return ("require".into(), name);
        }
        if e.c[0].a == "game" && e.c[1].k == "mcall" && e.c[1].a == "GetService" {
            return ("getservice".into(), name);
        }
    }
    ("other".into(), String::new())
}

fn line_of(src: &str, byte: usize) -> usize {
    src.as_bytes()[..byte.min(src.len())].iter().filter(|b| **b == b'\n').count() + 1
}

fn hash_str(s: &str) -> String {
    use std::collections::hash_map::DefaultHasher;
    use std::hash::{Hash, Hasher};
    let mut h = DefaultHasher::new();
    s.hash(&mut h);
    format!("{:016x}", h.finish())
}

fn top_level_facts(src: &str, cfg: &Config) -> Option<Vec<Value>> {
    let ast = fm_parse(src, cfg).ok()?;
    let recs = collect(&ast);
    let tree = crate::project::p_ast(&ast);
    let tops: Vec<&SRec> = recs.iter().filter(|r| r.path.len() == 1).collect();
    let mut out = Vec::new();
    let mut prev_end_line = 0usize;
    let mut prev_end = 0usize;
    for (i, r) in tops.iter().enumerate() {
        let node = tree.c.get(i)?;
        let (cls, name) = classify_require(node);
        let text = src.get(r.start..r.end_semi).unwrap_or("");
        let nf = crate::obs::token_nf(src.get(r.start..r.end).unwrap_or("")).join(" ");
        let start_line = line_of(src, r.start);
        let end_line = line_of(src, r.end_semi);
        // a blank line between the previous statement and this one (comment lines do not count)
        let between = src.get(prev_end..r.start).unwrap_or("");
        let blank_before = i > 0 && {
            let mut lines = between.split('\n').collect::<Vec<_>>();
            // first piece is the rest of the previous statement's line, last piece is this line's indent
            if lines.len() >= 2 {
                lines.remove(0);
                lines.pop();
            } else {
                lines.clear();
            }
            lines.iter().any(|l| l.trim().is_empty())
        };
        let comment_between = i > 0 && between.contains("--");
        out.push(json!({
            "i": i + 1, "cls": cls, "name": name, "marker": hash_str(&nf), "text": hash_str(text),
            "start": r.start, "end": r.end, "start_line": start_line, "end_line": end_line,
            "line_gap": if i > 0 { start_line as i64 - prev_end_line as i64 } else { 0 },
            "blank_before": blank_before, "comment_between": comment_between, "dirs": r.dirs, "semi": r.semi,
            "multiline": end_line > start_line, "kind": r.kind,
        }));
        prev_end_line = end_line;
        prev_end = r.end_semi;
    }
    Some(out)
}

pub fn sort_facts(src: &str, out: &str, cfg: &Config, range: Option<Range>) -> Value {
    let mut j = json!({});
    match (top_level_facts(src, cfg), top_level_facts(out, cfg)) {
        (Some(mut a), Some(b)) => {
            // dense rank of NAME in byte order (TLC cannot compare strings)
            let mut names: Vec<String> = a.iter().map(|x| x["name"].as_str().unwrap_or("").to_string()).collect();
            names.sort();
            names.dedup();
            for x in a.iter_mut() {
                let nm = x["name"].as_str().unwrap_or("").to_string();
                x["name_rank"] = json!(names.iter().position(|n| *n == nm).unwrap_or(0));
            }
            j["ins"] = json!(a);
            j["outs"] = json!(b);
        }
        _ => {
            j["error"] = json!("parse");
        }
    }
    j["enabled"] = json!(cfg.sort_requires.enabled);
    if let Some(rg) = range {
        j["range"] = json!({"start": rg.start.map(|x| x as u64).unwrap_or(0), "has_start": rg.start.is_some(),
            "end": rg.end.map(|x| if x > (1usize << 30) { 1u64 << 30 } else { x as u64 }).unwrap_or(0), "has_end": rg.end.is_some()});
    }
    j
}
