//! Statement-level observations for ignore directives and ranges (C08/C09/C10 masks).
use serde_json::{json, Value};
use stylua_lib::{Config, Range};

pub struct StmtObs {
    pub json: Value,
    pub exempt_out: Vec<(usize, usize)>,
}

pub fn observe(_src: &str, _out: &str, _cfg: &Config, _range: Option<Range>, _case: &Value) -> StmtObs {
    StmtObs { json: json!({}), exempt_out: vec![] }
}

pub fn exempt_spans_out(_out: &str, _cfg: &Config, _range: Option<Range>) -> Vec<(usize, usize)> {
    vec![]
}
