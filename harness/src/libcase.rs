//! Replay of one library case on the real code: render -> format_code -> reparse -> reformat,
//! recording one event per specification action with the projected abstract state.

use crate::obs;
use crate::project::{self, Node};
use crate::render::{self, Layout};
use crate::stmts;
use serde_json::{json, Value};
use std::panic;
use stylua_lib::{format_code, Config, OutputVerification, Range};

pub fn cpu_ms() -> f64 {
    let mut ts = libc::timespec { tv_sec: 0, tv_nsec: 0 };
    unsafe {
        libc::clock_gettime(libc::CLOCK_THREAD_CPUTIME_ID, &mut ts);
    }
    ts.tv_sec as f64 * 1000.0 + ts.tv_nsec as f64 / 1e6
}

/// canonicalise literal leaves of a generated tree the way the projection does
pub fn canon_tree(t: &Node) -> Node {
    let mut x = t.clone();
    match x.k.as_str() {
        "num" => x.a = crate::decode::num_value(&x.a),
        "type" if x.c.is_empty() && !x.a.is_empty() => {
            // generated one-word type
            x.c = vec![crate::project::n("tname", x.a.clone(), vec![])];
            x.a = String::new();
        }
        "table" if x.a.is_empty() && x.c.len() > 1 => x.a = ",".repeat(x.c.len() - 1),
        "raw" => {
            // raw literal token: classify by first char
            let c = x.a.as_bytes().first().cloned().unwrap_or(b' ');
            if c == b'"' || c == b'\'' || (c == b'[' && x.a.len() > 1 && matches!(x.a.as_bytes()[1], b'[' | b'=')) {
                x.k = "str".into();
                x.a = crate::decode::decode_token(&x.a).map(|b| crate::decode::canon_bytes(&b)).unwrap_or_default();
            } else if c.is_ascii_digit() || c == b'.' {
                x.k = "num".into();
                x.a = crate::decode::num_value(&x.a);
            }
        }
        _ => {}
    }
    x.c = x.c.iter().map(canon_tree).collect();
    x
}

pub fn parse_cfg(v: &Value) -> Result<Config, String> {
    let mut m = v.clone();
    if m.is_null() {
        m = json!({});
    }
    // column_width "max" => usize::MAX
    if m.get("column_width").and_then(|x| x.as_str()) == Some("max") {
        m["column_width"] = json!(usize::MAX);
    }
    serde_json::from_value::<Config>(m).map_err(|e| e.to_string())
}

fn parse_range(v: &Value) -> Option<Range> {
    if v.is_null() {
        return None;
    }
    let g = |k: &str| -> Option<usize> {
        match v.get(k) {
            Some(Value::String(s)) if s == "max" => Some(usize::MAX),
            Some(x) => x.as_u64().map(|n| n as usize),
            None => None,
        }
    };
    Some(Range::from_values(g("start"), g("end")))
}

pub fn fm_version(cfg: &Config) -> full_moon::LuaVersion {
    cfg.syntax.into()
}

pub fn fm_parse(src: &str, cfg: &Config) -> Result<full_moon::ast::Ast, String> {
    // the parser itself can panic on some invalid texts (full_moon 1.2.0, parsers.rs:1818 on `(& A | (B & C) & D)`):
    // for the harness' own independent parse that is simply "does not parse"
    match panic::catch_unwind(panic::AssertUnwindSafe(|| full_moon::parse_fallible(src, fm_version(cfg)).into_result())) {
        Ok(r) => r.map_err(|e| e.iter().map(|x| x.to_string()).collect::<Vec<_>>().join("; ")),
        Err(_) => Err("the parser panicked".to_string()),
    }
}

pub enum Outcome {
    Ok(String),
    ParseError(String),
    OtherError(String),
    Panic(String),
}

pub fn run_format(src: &str, cfg: Config, range: Option<Range>, verify: bool) -> (Outcome, f64) {
    let t0 = cpu_ms();
    let v = if verify { OutputVerification::Full } else { OutputVerification::None };
    let r = panic::catch_unwind(panic::AssertUnwindSafe(|| format_code(src, cfg, range, v)));
    let dt = cpu_ms() - t0;
    let o = match r {
        Ok(Ok(s)) => Outcome::Ok(s),
        Ok(Err(stylua_lib::Error::ParseError(e))) => Outcome::ParseError(format!("{:?}", e.first().map(|x| x.to_string()))),
        Ok(Err(e)) => Outcome::OtherError(e.to_string()),
        Err(p) => {
            let msg = if let Some(s) = p.downcast_ref::<&str>() {
                s.to_string()
            } else if let Some(s) = p.downcast_ref::<String>() {
                s.clone()
            } else {
                "panic".into()
            };
            Outcome::Panic(msg)
        }
    };
    (o, dt)
}

const SMALL: usize = 600;

fn tree_depth(t: &Node) -> usize {
    1 + t.c.iter().map(tree_depth).max().unwrap_or(0)
}

/// TLC's Json module has no null: drop null-valued keys, replace nulls in arrays by "none".
fn strip_nulls(v: &mut Value) {
    match v {
        Value::Object(m) => {
            let keys: Vec<String> = m.iter().filter(|(_, x)| x.is_null()).map(|(k, _)| k.clone()).collect();
            for k in keys {
                m.remove(&k);
            }
            for (_, x) in m.iter_mut() {
                strip_nulls(x);
            }
        }
        Value::Array(a) => {
            for x in a.iter_mut() {
                if x.is_null() {
                    *x = json!("none");
                } else {
                    strip_nulls(x);
                }
            }
        }
        _ => {}
    }
}

pub fn process(case: &Value) -> Vec<Value> {
    let mut evs = process_inner(case);
    for e in evs.iter_mut() {
        strip_nulls(e);
    }
    evs
}

fn process_inner(case: &Value) -> Vec<Value> {
    let id = case.get("id").cloned().unwrap_or(json!("?"));
    let meta = case.get("meta").cloned().unwrap_or(Value::Null);
    let mut evs = Vec::new();
    let cfg = match parse_cfg(case.get("cfg").unwrap_or(&Value::Null)) {
        Ok(c) => c,
        Err(e) => {
            evs.push(json!({"ev": "ToolError", "id": id, "msg": format!("bad cfg: {}", e)}));
            return evs;
        }
    };
    let mut range = parse_range(case.get("range").unwrap_or(&Value::Null));
    let want = |w: &str| case.get("want").and_then(|x| x.as_array()).map_or(false, |a| a.iter().any(|x| x.as_str() == Some(w)));

    // ---- Render
    let gen_tree: Option<Node> = case.get("tree").and_then(|t| serde_json::from_value(t.clone()).ok());
    let layout: Layout = case.get("layout").and_then(|l| serde_json::from_value(l.clone()).ok()).unwrap_or_default();
    let src: String = if let Some(s) = case.get("src").and_then(|s| s.as_str()) {
        s.to_string()
    } else if let Some(f) = case.get("src_file").and_then(|s| s.as_str()) {
        match std::fs::read(f) {
            Ok(b) => match String::from_utf8(b) {
                Ok(s) => s,
                Err(_) => {
                    evs.push(json!({"ev": "Skip", "id": id, "why": "non-utf8"}));
                    return evs;
                }
            },
            Err(e) => {
                evs.push(json!({"ev": "ToolError", "id": id, "msg": format!("read {}: {}", f, e)}));
                return evs;
            }
        }
    } else if let Some(t) = &gen_tree {
        render::render(t, &layout)
    } else {
        evs.push(json!({"ev": "ToolError", "id": id, "msg": "case has no src/src_file/tree"}));
        return evs;
    };
    let small = src.len() <= SMALL;
    let in_ast = fm_parse(&src, &cfg);
    // symbolic range markers are resolved against the statements of the parsed input
    let mut range_json = case.get("range").cloned().unwrap_or(Value::Null);
    if let (Some(rm), Ok(ast)) = (case.get("range_markers"), in_ast.as_ref()) {
        let recs = stmts::collect(ast);
        let s = rm.get("start").and_then(|m| m.as_str()).and_then(|m| stmts::resolve_marker(m, &recs, src.len()));
        let e = rm.get("end").and_then(|m| m.as_str()).and_then(|m| stmts::resolve_marker(m, &recs, src.len()));
        if s.is_some() || e.is_some() {
            range = Some(Range::from_values(s, e));
            range_json = json!({"start": s, "end": e.map(|x| if x > (1usize << 30) { 1u64 << 30 } else { x as u64 })});
        }
    }
    let in_tree = in_ast.as_ref().ok().map(project::p_ast);
    let expected = gen_tree.as_ref().map(canon_tree);
    let spec_match: Value = match (&expected, &in_tree) {
        (Some(e), Some(t)) => json!(e == t),
        _ => Value::Null,
    };
    let mut render_ev = json!({
        "ev": "Render", "id": id, "meta": meta, "in_parse": if in_ast.is_ok() { "ok" } else { "err" },
        "spec_match": spec_match, "len": src.len(),
        "cfg": case.get("cfg").cloned().unwrap_or(json!({})), "range": range_json,
        "valid_expected": case.get("valid").cloned().unwrap_or(Value::Null),
        "has_directives": src.contains("stylua: ignore"),
    });
    if small || want("src") {
        render_ev["src"] = json!(src);
    } else if let Some(f) = case.get("src_file") {
        render_ev["src_file"] = f.clone();
    }
    if let Some(t) = &gen_tree {
        let toks = render::tokens(t);
        let layout = render::resolve_layout(&toks, &layout);
        render_ev["ntok"] = json!(toks.len());
        let class = |s: &str| -> String {
            let c = s.chars().next().unwrap_or(' ');
            if c.is_ascii_digit() { "num".into() }
            else if c == '"' || c == '\'' { "str".into() }
            else if c.is_alphabetic() || c == '_' {
                if ["and","break","do","else","elseif","end","false","for","function","goto","if","in","local","nil","not","or","repeat","return","then","true","until","while","continue"].contains(&s) { s.to_string() } else { "name".into() }
            } else { s.to_string() }
        };
        let ctx: Vec<Value> = layout.comments.iter().map(|c| {
            let prev = if c.slot > 0 { toks.get(c.slot - 1).map(|t| class(&t.text)).unwrap_or_default() } else { "BOF".into() };
            let next = toks.get(c.slot).map(|t| class(&t.text)).unwrap_or_else(|| "EOF".into());
            json!({"prev": prev, "next": next, "kind": c.kind, "in_range": c.slot <= toks.len()})
        }).collect();
        if !ctx.is_empty() {
            render_ev["slot_ctx"] = json!(ctx);
        }
    }
    if let Some(preds) = case.get("meta").and_then(|m| m.get("pred")).and_then(|p| p.as_array()) {
        let pc: Vec<Value> = preds.iter().filter_map(|p| serde_json::from_value::<Node>(p.clone()).ok()).map(|n| serde_json::to_value(canon_tree(&n)).unwrap()).collect();
        render_ev["meta"]["pred_c"] = json!(pc);
        if let Some(m) = render_ev["meta"].as_object_mut() {
            m.remove("pred");
            m.remove("expr");
        }
    }
    if spec_match == json!(false) {
        render_ev["expected_tree"] = serde_json::to_value(&expected).unwrap();
        render_ev["parsed_tree"] = serde_json::to_value(&in_tree).unwrap();
    }
    evs.push(render_ev);

    // ---- Format (one per distinct output over the sweep of configurations)
    let cfg_json = case.get("cfg").cloned().unwrap_or(json!({}));
    let variants = expand_sweep(&src, &cfg_json, case.get("sweep").unwrap_or(&Value::Null), range);
    // group by outcome text
    let mut groups: Vec<(Value, Config, Outcome, f64, Vec<Value>, String)> = Vec::new();
    for (vj, vcfg, label) in variants {
        let (o, ms) = run_format(&src, vcfg, range, false);
        // outputs are merged across column widths only: every other option value is judged on its own
        let opt_key = {
            let mut l = label.clone();
            if let Some(m) = l.as_object_mut() {
                m.remove("column_width");
            }
            l.to_string()
        };
        let key = format!("{}|{}", opt_key, outcome_key(&o));
        if let Some(g) = groups.iter_mut().find(|g| g.5 == key) {
            g.4.push(label);
            if ms > g.3 {
                g.3 = ms;
            }
        } else {
            groups.push((vj, vcfg, o, ms, vec![label], key));
        }
    }
    let in_ok = in_ast.is_ok();
    // format_code is a function of (text, configuration): after every other configuration of the sweep has been
    // through the same thread, the first one must still give what it gave the first time (no state kept between calls)
    let again_same = if groups.is_empty() {
        None
    } else {
        // the first and the middle configuration, each right after a different one
        let picks = [0, groups.len() / 2, groups.len() - 1, 0];
        Some(picks.iter().all(|&i| {
            let g = &groups[i];
            let (o2, _) = run_format(&src, g.1, range, false);
            outcome_key(&o2) == outcome_key(&g.2)
        }))
    };
    let first_format = evs.len();
    for (vi, (vj, vcfg, o, ms, labels, _key)) in groups.into_iter().enumerate() {
        observe_variant(case, &id, vi, &vj, vcfg, range, &src, small, in_ok, in_tree.as_ref(), o, ms, labels, &mut evs);
    }
    if let (Some(same), Some(ev)) = (again_same, evs.get_mut(first_format)) {
        if ev["ev"] == "Format" {
            ev["again_same"] = json!(same);
        }
    }
    evs
}

fn outcome_key(o: &Outcome) -> String {
    match o {
        Outcome::Ok(s) => format!("ok:{}", s),
        Outcome::ParseError(_) => "parse_error".into(),
        Outcome::OtherError(m) => format!("error:{}", m),
        Outcome::Panic(m) => format!("panic:{}", m),
    }
}

/// Expand case.sweep (option -> list of values, or "all" for column_width) into concrete configs.
/// With column_width = "all", every combination of the other axes gets its own width range
/// 1..=fit+1, where fit is the widest line of that combination's output at unlimited width.
fn expand_sweep(src: &str, cfg: &Value, sweep: &Value, range: Option<Range>) -> Vec<(Value, Config, Value)> {
    let mut axes: Vec<(String, Vec<Value>)> = Vec::new();
    let mut all_widths = false;
    if let Some(m) = sweep.as_object() {
        for (k, v) in m {
            if k == "column_width" && v.as_str() == Some("all") {
                all_widths = true;
            } else if let Some(a) = v.as_array() {
                axes.push((k.clone(), a.clone()));
            }
        }
    }
    let mut out: Vec<(Value, Value)> = vec![(cfg.clone(), json!({}))];
    for (k, vals) in axes {
        let mut next = Vec::new();
        for (c, l) in &out {
            for v in &vals {
                let mut c2 = c.clone();
                let mut l2 = l.clone();
                if k == "sort_requires" {
                    c2[&k] = json!({"enabled": v});
                } else {
                    c2[&k] = v.clone();
                }
                l2[&k] = v.clone();
                next.push((c2, l2));
            }
        }
        out = next;
    }
    if all_widths {
        let mut next = Vec::new();
        for (c, l) in &out {
            let mut cw = c.clone();
            cw["column_width"] = json!(100000);
            let mut fit = 40usize;
            if let Ok(pc) = parse_cfg(&cw) {
                if let (Outcome::Ok(s), _) = run_format(src, pc, range, false) {
                    fit = s.lines().map(|l| l.chars().map(|ch| if ch == '\t' { 4 } else { 1 }).sum::<usize>()).max().unwrap_or(1);
                }
            }
            // the input's own widest line matters too (decisions taken on the input text)
            let fit_in = src.lines().map(|l| l.chars().map(|ch| if ch == '\t' { 4 } else { 1 }).sum::<usize>()).max().unwrap_or(1);
            let top = fit.max(fit_in) + 1;
            let mut ws: Vec<usize> = if top <= 140 { (1..=top).collect() } else { (1..=top).step_by(top / 100 + 1).chain([top - 1, top]).collect() };
            ws.sort();
            ws.dedup();
            for w in ws {
                let mut c2 = c.clone();
                let mut l2 = l.clone();
                c2["column_width"] = json!(w);
                l2["column_width"] = json!(w);
                next.push((c2, l2));
            }
        }
        out = next;
    }
    out.into_iter().filter_map(|(c, l)| parse_cfg(&c).ok().map(|pc| (c, pc, l))).collect()
}

#[allow(clippy::too_many_arguments)]
fn observe_variant(
    case: &Value, id: &Value, vi: usize, vcfg_json: &Value, cfg: Config, range: Option<Range>, src: &str, small: bool, in_ok: bool,
    in_tree: Option<&Node>, o: Outcome, ms: f64, labels: Vec<Value>, evs: &mut Vec<Value>,
) {
    let want = |w: &str| case.get("want").and_then(|x| x.as_array()).map_or(false, |a| a.iter().any(|x| x.as_str() == Some(w)));
    let nlabels = labels.len();
    let labels_short: Vec<Value> = if labels.len() > 6 { let mut v: Vec<Value> = labels[..3].to_vec(); v.extend_from_slice(&labels[labels.len()-3..]); v } else { labels };
    let base = json!({"id": id, "variant": vi, "cfg": vcfg_json, "labels": labels_short, "nlabels": nlabels, "cpu_ms": ms, "len": src.len(), "in_parse": if in_ok {"ok"} else {"err"}});
    let mk = |ev: &str, extra: Value| -> Value {
        let mut b = base.clone();
        b["ev"] = json!(ev);
        if let Some(m) = extra.as_object() {
            for (k, v) in m {
                b[k] = v.clone();
            }
        }
        b
    };
    let out = match o {
        Outcome::Ok(s) => s,
        Outcome::ParseError(e) => {
            evs.push(mk("Format", json!({"outcome": "parse_error", "msg": e})));
            return;
        }
        Outcome::OtherError(e) => {
            evs.push(mk("Format", json!({"outcome": "error", "msg": e})));
            return;
        }
        Outcome::Panic(e) => {
            evs.push(mk("Format", json!({"outcome": "panic", "msg": e})));
            return;
        }
    };
    let c_in = obs::census(src);
    let c_out = obs::census(&out);
    let nf_in = obs::token_nf(src);
    let nf_out = obs::token_nf(&out);
    let nfd = obs::first_diff(&nf_in, &nf_out);
    let nf_same = nfd.is_null();
    let mut fev = mk("Format", json!({
        "outcome": "ok", "out_len": out.len(),
        "identity": out == src,
        "census_n": c_in.len(),
        "census_lost": obs::ckeys_json(&obs::bag_diff(&c_in, &c_out)),
        "census_gained": obs::ckeys_json(&obs::bag_diff(&c_out, &c_in)),
        "nf_n": nf_in.len(),
        "nf_diff": nfd, "nf_same": nf_same,
    }));
    if small || want("out") {
        fev["out"] = json!(out);
    }
    // statement-level observations (ignore directives / ranges)
    let exempt: Vec<(usize, usize)>;
    if want("stmts") {
        let so = stmts::observe(src, &out, &cfg, range, case);
        exempt = so.exempt_out.clone();
        fev["stmts"] = so.json;
    } else {
        exempt = stmts::exempt_spans_out(&out, &cfg, range);
    }
    if want("lines") {
        fev["lines"] = obs::line_classes(&out, &exempt);
    }
    if want("sort") {
        fev["sort"] = stmts::sort_facts(src, &out, &cfg, range);
    }
    if want("strings") {
        fev["strings_in"] = json!(obs::string_table(src));
        fev["strings_out"] = json!(obs::string_table(&out));
        fev["numbers_in"] = json!(obs::number_table(src));
        fev["numbers_out"] = json!(obs::number_table(&out));
    }
    evs.push(fev);

    // ---- Reparse
    let out_ast = fm_parse(&out, &cfg);
    let out_tree = out_ast.as_ref().ok().map(project::p_ast);
    let mut rev = mk("Reparse", json!({"ok": out_ast.is_ok()}));
    if let Err(e) = &out_ast {
        rev["msg"] = json!(e);
    }
    if let (Some(it), Some(ot)) = (in_tree, &out_tree) {
        let mi = project::meaning(it, false);
        let mo = project::meaning(ot, false);
        rev["meaning_in_digest"] = json!(project::digest(&mi));
        rev["meaning_out_digest"] = json!(project::digest(&mo));
        let n = mi.c.len().min(mo.c.len());
        let mut fd: Value = Value::Null;
        for i in 0..n {
            if mi.c[i] != mo.c[i] {
                fd = json!({"stmt": i + 1, "in_kind": mi.c[i].k, "out_kind": mo.c[i].k});
                break;
            }
        }
        if fd.is_null() && mi.c.len() != mo.c.len() {
            fd = json!({"stmt": n + 1, "in_kind": "count", "out_kind": "count"});
        }
        rev["meaning_first_diff"] = fd;
        if mi != mo {
            rev["meaning_site"] = json!(project::diff_site(&mi, &mo));
        }
        rev["stmts_in"] = json!(mi.c.len());
        rev["stmts_out"] = json!(mo.c.len());
        // whole trees only when they are small and shallow (TLC recurses over them); digests otherwise
        if small && tree_depth(it) <= 80 && tree_depth(ot) <= 80 {
            rev["in_tree"] = serde_json::to_value(it).unwrap();
            rev["out_tree"] = serde_json::to_value(ot).unwrap();
        }
        if want("calls") {
            rev["calls_out"] = crate::calls::call_table(ot);
            rev["calls_in"] = crate::calls::call_table(it);
            rev["headers_out"] = crate::calls::header_table(&out, &stmts::exempt_spans_out(&out, &cfg, range));
        }
    }
    evs.push(rev);

    // ---- Reformat
    if want("reformat") && range.is_none() {
        let (o2, ms2) = run_format(&out, cfg, None, false);
        let mut e2 = mk("Reformat", json!({"cpu_ms2": ms2}));
        match o2 {
            Outcome::Ok(s2) => {
                e2["outcome"] = json!("ok");
                e2["equal"] = json!(s2 == out);
                if s2 != out {
                    if small {
                        e2["out2"] = json!(s2);
                    }
                    let (o3, _) = run_format(&s2, cfg, None, false);
                    if let Outcome::Ok(s3) = o3 {
                        e2["third_equal"] = json!(s3 == s2);
                    }
                    let la: Vec<&str> = out.lines().collect();
                    let lb: Vec<&str> = s2.lines().collect();
                    let mut k = 0;
                    while k < la.len() && k < lb.len() && la[k] == lb[k] {
                        k += 1;
                    }
                    e2["first_diff_line"] = json!(k + 1);
                    e2["line_a"] = json!(la.get(k).cloned().unwrap_or(""));
                    e2["line_b"] = json!(lb.get(k).cloned().unwrap_or(""));
                }
            }
            Outcome::ParseError(m) => {
                e2["outcome"] = json!("parse_error");
                e2["msg"] = json!(m);
            }
            Outcome::OtherError(m) => {
                e2["outcome"] = json!("error");
                e2["msg"] = json!(m);
            }
            Outcome::Panic(m) => {
                e2["outcome"] = json!("panic");
                e2["msg"] = json!(m);
            }
        }
        evs.push(e2);
    }
    if want("verify") {
        let (ov, _) = run_format(src, cfg, range, true);
        evs.push(mk("Verify", json!({"outcome": match ov {
            Outcome::Ok(_) => "ok", Outcome::ParseError(_) => "parse_error", Outcome::OtherError(_) => "verify_error", Outcome::Panic(_) => "panic" }})));
    }
}

fn range_for_second_pass(_r: Option<Range>, _keep: bool) -> Option<Range> {
    // idempotence is a whole-file property: the second pass runs without a range
    None
}
