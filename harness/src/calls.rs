//! Call-site and function-header tables (C11).
use crate::lex::{self, Kind, Tok};
use crate::project::Node;
use serde_json::{json, Value};

fn walk(t: &Node, out: &mut Vec<Value>) {
    if t.k == "chain" {
        for (i, s) in t.c.iter().enumerate() {
            let (call, method) = match s.k.as_str() {
                "call" => (Some(s), false),
                "mcall" => (s.c.first(), true),
                _ => (None, false),
            };
            if let Some(c) = call {
                let argkind = if c.c.len() == 1 {
                    match c.c[0].k.as_str() {
                        "str" => "str",
                        "table" => "table",
                        _ => "other",
                    }
                } else {
                    "other"
                };
                out.push(json!({"form": c.a, "nargs": c.c.len(), "argkind": argkind, "followed": i + 1 < t.c.len(), "method": method}));
            }
        }
    }
    for c in &t.c {
        walk(c, out);
    }
}

/// Call sites in source order (preorder of the projected tree: prefix before arguments).
pub fn call_table(t: &Node) -> Value {
    let mut v = Vec::new();
    walk(t, &mut v);
    Value::Array(v)
}

/// For every `(` that follows a name: is it a function definition header or a call, and is there
/// whitespace between the name and the parenthesis?  Rows inside `exempt` spans are flagged.
pub fn header_table(out: &str, exempt: &[(usize, usize)]) -> Value {
    let toks: Vec<Tok> = lex::lex(out).into_iter().collect();
    let code: Vec<usize> = (0..toks.len()).filter(|i| !toks[*i].is_trivia()).collect();
    let mut rows: Vec<Value> = Vec::new();
    for (ci, &ti) in code.iter().enumerate() {
        let t = &toks[ti];
        if t.kind != Kind::Symbol || t.text(out) != "(" || ci == 0 {
            continue;
        }
        let p = &toks[code[ci - 1]];
        let kind;
        if p.kind == Kind::Name {
            // walk back over a.b.c / a:b
            let mut k = ci - 1;
            while k >= 2 {
                let sep = &toks[code[k - 1]];
                let before = &toks[code[k - 2]];
                if sep.kind == Kind::Symbol && matches!(sep.text(out), "." | ":") && before.kind == Kind::Name {
                    k -= 2;
                } else {
                    break;
                }
            }
            let is_def = k >= 1 && toks[code[k - 1]].kind == Kind::Keyword && toks[code[k - 1]].text(out) == "function";
            kind = if is_def { "def" } else { "call" };
        } else if p.kind == Kind::Keyword && p.text(out) == "function" {
            kind = "anon";
        } else {
            continue;
        }
        let between = &out[p.end..t.start];
        let ex = exempt.iter().any(|(a, z)| t.start >= *a && t.start < *z);
        rows.push(json!({"kind": kind, "space": !between.is_empty(), "newline": between.contains('\n'),
                         "comment": between.contains("--"), "exempt": ex, "at": t.start}));
    }
    // aggregate into classes
    let mut classes: std::collections::BTreeMap<String, (Value, u64)> = std::collections::BTreeMap::new();
    for mut r in rows {
        let first = r["at"].clone();
        r.as_object_mut().unwrap().remove("at");
        let key = r.to_string();
        let e = classes.entry(key).or_insert_with(|| {
            let mut x = r.clone();
            x["first_at"] = first;
            (x, 0)
        });
        e.1 += 1;
    }
    Value::Array(classes.into_values().map(|(mut r, n)| { r["count"] = json!(n); r }).collect())
}
