//! Call-site and function-header tables (C11).
use crate::project::Node;
use serde_json::{json, Value};

fn walk(t: &Node, out: &mut Vec<Value>) {
    if t.k == "chain" {
        for (i, s) in t.c.iter().enumerate() {
            let (call, method) = match s.k.as_str() {
                "call" => (Some(s), false),
                "mcall" => (s.c.first(), true),
                _ => (None, false),
            };
            if let Some(c) = call {
                let argkind = if c.c.len() == 1 {
                    match c.c[0].k.as_str() {
                        "str" => "str",
                        "table" => "table",
                        _ => "other",
                    }
                } else {
                    "other"
                };
                out.push(json!({"form": c.a, "nargs": c.c.len(), "argkind": argkind, "followed": i + 1 < t.c.len(), "method": method}));
            }
        }
    }
    for c in &t.c {
        walk(c, out);
    }
}

pub fn call_table(t: &Node) -> Value {
    let mut v = Vec::new();
    walk(t, &mut v);
    Value::Array(v)
}

pub fn header_table(_out: &str) -> Value {
    json!([])
}
