//! The checker's own string decoder and number evaluator (validated against the
//! specification's Strings!Decode / NumValue on every enumerated body in the C04 check).

/// Decode the body of a quoted string (without the quotes) to bytes.
/// Unknown escapes `\q` decode to the character itself (Lua 5.1 reading); every raw
/// character decodes to itself; newline sequences after a backslash decode to `\n`.
pub fn decode_quoted(body: &[u8]) -> Vec<u8> {
    let mut out = Vec::with_capacity(body.len());
    let mut i = 0;
    while i < body.len() {
        let c = body[i];
        if c != b'\\' {
            out.push(c);
            i += 1;
            continue;
        }
        i += 1;
        if i >= body.len() {
            out.push(b'\\');
            break;
        }
        let e = body[i];
        match e {
            b'a' => { out.push(7); i += 1; }
            b'b' => { out.push(8); i += 1; }
            b'f' => { out.push(12); i += 1; }
            b'n' => { out.push(10); i += 1; }
            b'r' => { out.push(13); i += 1; }
            b't' => { out.push(9); i += 1; }
            b'v' => { out.push(11); i += 1; }
            b'\n' => { out.push(10); i += 1; if body.get(i) == Some(&b'\r') { i += 1; } }
            b'\r' => { out.push(10); i += 1; if body.get(i) == Some(&b'\n') { i += 1; } }
            b'z' => {
                i += 1;
                while i < body.len() && matches!(body[i], b' ' | b'\t' | b'\n' | b'\r' | 0x0b | 0x0c) {
                    i += 1;
                }
            }
            b'x' => {
                let h: Vec<u8> = body[i + 1..].iter().take(2).cloned().take_while(|c| c.is_ascii_hexdigit()).collect();
                if h.len() == 2 {
                    out.push(u8::from_str_radix(std::str::from_utf8(&h).unwrap(), 16).unwrap());
                    i += 3;
                } else {
                    out.push(b'x');
                    i += 1;
                }
            }
            b'0'..=b'9' => {
                let mut v: u32 = 0;
                let mut n = 0;
                while n < 3 && i < body.len() && body[i].is_ascii_digit() {
                    v = v * 10 + (body[i] - b'0') as u32;
                    i += 1;
                    n += 1;
                }
                out.push((v & 0xff) as u8);
                if v > 255 {
                    out.push(0xff); // marker: out-of-range decimal escape stays distinguishable
                }
            }
            b'u' => {
                if body.get(i + 1) == Some(&b'{') {
                    let mut j = i + 2;
                    let mut v: u64 = 0;
                    let mut n = 0;
                    while j < body.len() && body[j].is_ascii_hexdigit() && n < 16 {
                        v = v * 16 + (body[j] as char).to_digit(16).unwrap() as u64;
                        j += 1;
                        n += 1;
                    }
                    if n > 0 && body.get(j) == Some(&b'}') {
                        utf8_ext(v, &mut out);
                        i = j + 1;
                    } else {
                        out.push(b'u');
                        i += 1;
                    }
                } else {
                    out.push(b'u');
                    i += 1;
                }
            }
            other => { out.push(other); i += 1; }
        }
    }
    out
}

/// Lua 5.4 style extended UTF-8 encoding (up to 2^31).
fn utf8_ext(v: u64, out: &mut Vec<u8>) {
    if v < 0x80 {
        out.push(v as u8);
    } else if v < 0x800 {
        out.push(0xC0 | (v >> 6) as u8);
        out.push(0x80 | (v & 0x3F) as u8);
    } else if v < 0x10000 {
        out.push(0xE0 | (v >> 12) as u8);
        out.push(0x80 | ((v >> 6) & 0x3F) as u8);
        out.push(0x80 | (v & 0x3F) as u8);
    } else if v < 0x200000 {
        out.push(0xF0 | (v >> 18) as u8);
        out.push(0x80 | ((v >> 12) & 0x3F) as u8);
        out.push(0x80 | ((v >> 6) & 0x3F) as u8);
        out.push(0x80 | (v & 0x3F) as u8);
    } else if v < 0x4000000 {
        out.push(0xF8 | (v >> 24) as u8);
        out.push(0x80 | ((v >> 18) & 0x3F) as u8);
        out.push(0x80 | ((v >> 12) & 0x3F) as u8);
        out.push(0x80 | ((v >> 6) & 0x3F) as u8);
        out.push(0x80 | (v & 0x3F) as u8);
    } else {
        out.push(0xFC | ((v >> 30) & 1) as u8);
        out.push(0x80 | ((v >> 24) & 0x3F) as u8);
        out.push(0x80 | ((v >> 18) & 0x3F) as u8);
        out.push(0x80 | ((v >> 12) & 0x3F) as u8);
        out.push(0x80 | ((v >> 6) & 0x3F) as u8);
        out.push(0x80 | (v & 0x3F) as u8);
    }
}

/// Decode a long-bracket body: first newline dropped, newline sequences normalised to \n.
pub fn decode_long(body: &[u8]) -> Vec<u8> {
    let mut i = 0;
    if body.first() == Some(&b'\r') {
        i = 1;
        if body.get(1) == Some(&b'\n') {
            i = 2;
        }
    } else if body.first() == Some(&b'\n') {
        i = 1;
        if body.get(1) == Some(&b'\r') {
            i = 2;
        }
    }
    let mut out = Vec::with_capacity(body.len());
    while i < body.len() {
        match body[i] {
            b'\r' => {
                out.push(b'\n');
                if body.get(i + 1) == Some(&b'\n') {
                    i += 1;
                }
            }
            b'\n' => {
                out.push(b'\n');
                if body.get(i + 1) == Some(&b'\r') {
                    i += 1;
                }
            }
            c => out.push(c),
        }
        i += 1;
    }
    out
}

/// Decode a whole string token (with its delimiters). Returns None if not a string token.
pub fn decode_token(tok: &str) -> Option<Vec<u8>> {
    let b = tok.as_bytes();
    match b.first()? {
        b'"' | b'\'' => {
            if b.len() >= 2 && b[b.len() - 1] == b[0] {
                Some(decode_quoted(&b[1..b.len() - 1]))
            } else {
                Some(decode_quoted(&b[1..]))
            }
        }
        b'[' => {
            let mut lvl = 0;
            while b.get(1 + lvl) == Some(&b'=') {
                lvl += 1;
            }
            let open = lvl + 2;
            if b.len() >= 2 * open {
                Some(decode_long(&b[open..b.len() - open]))
            } else {
                None
            }
        }
        b'`' | b'}' => {
            // interpolated string piece: strip delimiters, decode as quoted
            if b.len() >= 2 {
                Some(decode_quoted(&b[1..b.len() - 1]))
            } else {
                None
            }
        }
        _ => None,
    }
}

pub fn hex(bytes: &[u8]) -> String {
    let mut s = String::with_capacity(bytes.len() * 2);
    for b in bytes {
        s.push_str(&format!("{:02x}", b));
    }
    s
}

/// Canonical display of a decoded value for trees: plain text when it is made of
/// "safe" characters, `hex:` + hex otherwise.
pub fn canon_bytes(bytes: &[u8]) -> String {
    if bytes.iter().all(|c| c.is_ascii_alphanumeric() || matches!(c, b'_' | b' ' | b'.' | b'/' | b'-')) {
        String::from_utf8_lossy(bytes).into_owned()
    } else {
        format!("hex:{}", hex(bytes))
    }
}

fn strip_leading_zeros(s: &str) -> &str {
    let t = s.trim_start_matches('0');
    t
}

/// Canonical value of a numeric literal spelling. Two spellings get the same canonical
/// string iff they denote the same number (and the same int/float subtype and suffix).
pub fn num_value(spelling: &str) -> String {
    let mut s: String = spelling.chars().filter(|c| *c != '_').collect::<String>().to_ascii_lowercase();
    // LuaJIT suffixes
    let mut suffix = String::new();
    for suf in ["ull", "ll", "i"] {
        if s.ends_with(suf) && !(s.starts_with("0x") && suf == "i" && false) {
            // `i` can't be a hex digit; `ll`/`ull` neither
            suffix = suf.to_string();
            s.truncate(s.len() - suf.len());
            break;
        }
    }
    let body;
    if let Some(h) = s.strip_prefix("0x") {
        let (mant, exp) = match h.find('p') {
            Some(p) => (&h[..p], h[p + 1..].parse::<i64>().unwrap_or(0)),
            None => (h, 0i64),
        };
        let is_float = h.contains('p') || mant.contains('.');
        let (ip, fp) = match mant.find('.') {
            Some(d) => (&mant[..d], &mant[d + 1..]),
            None => (mant, ""),
        };
        if !is_float {
            let digits = strip_leading_zeros(ip);
            if digits.is_empty() {
                body = "i:0".to_string();
            } else if digits.len() <= 16 {
                body = format!("i:{}", u64::from_str_radix(digits, 16).unwrap_or(0));
            } else {
                body = format!("hx:{}", digits);
            }
        } else {
            let mut digits = format!("{}{}", ip, fp);
            let mut e2 = exp - 4 * fp.len() as i64;
            while digits.ends_with('0') {
                digits.pop();
                e2 += 4;
            }
            let d = strip_leading_zeros(&digits).to_string();
            if d.is_empty() {
                body = "f:0".to_string();
            } else {
                // normalise the low bits of the mantissa: shift out trailing zero bits
                if d.len() <= 15 {
                    let mut v = u64::from_str_radix(&d, 16).unwrap();
                    while v % 2 == 0 {
                        v /= 2;
                        e2 += 1;
                    }
                    body = format!("fb:{}p{}", v, e2);
                } else {
                    body = format!("fh:{}p{}", d, e2);
                }
            }
        }
    } else if let Some(bn) = s.strip_prefix("0b") {
        let digits = strip_leading_zeros(bn);
        if digits.is_empty() {
            body = "i:0".into();
        } else if digits.len() <= 64 {
            body = format!("i:{}", u64::from_str_radix(digits, 2).unwrap_or(0));
        } else {
            body = format!("bn:{}", digits);
        }
    } else {
        let (mant, exp) = match s.find('e') {
            Some(p) => (&s[..p], s[p + 1..].parse::<i64>().unwrap_or(0)),
            None => (&s[..], 0i64),
        };
        let is_float = s.contains('e') || mant.contains('.');
        let (ip, fp) = match mant.find('.') {
            Some(d) => (&mant[..d], &mant[d + 1..]),
            None => (mant, ""),
        };
        let mut digits = format!("{}{}", ip, fp);
        let mut e10 = exp - fp.len() as i64;
        if is_float {
            while digits.ends_with('0') {
                digits.pop();
                e10 += 1;
            }
        }
        let d = strip_leading_zeros(&digits);
        if d.is_empty() {
            body = if is_float { "f:0".into() } else { "i:0".into() };
        } else if is_float {
            body = format!("f:{}e{}", d, e10);
        } else {
            body = format!("i:{}", d);
        }
    }
    if suffix.is_empty() {
        body
    } else {
        format!("{}{}", body, suffix)
    }
}

#[cfg(test)]
mod tests {
    use super::*;
    #[test]
    fn nums() {
        assert_eq!(num_value(".5"), num_value("0.5"));
        assert_eq!(num_value("0.50"), num_value("0.5"));
        assert_eq!(num_value("1e2"), num_value("100.0"));
        assert_ne!(num_value("1e2"), num_value("100"));
        assert_eq!(num_value("0X10"), num_value("16"));
        assert_eq!(num_value("0xA.8p0"), num_value("0x15p-1"));
        assert_eq!(num_value("1_000"), num_value("1000"));
        assert_ne!(num_value("1"), num_value("10"));
        assert_eq!(num_value("0b101"), num_value("5"));
        assert_ne!(num_value("5LL"), num_value("5"));
    }
    #[test]
    fn strs() {
        assert_eq!(decode_token("\"a\\\"b\"").unwrap(), b"a\"b");
        assert_eq!(decode_token("'a\"b'").unwrap(), b"a\"b");
        assert_eq!(decode_token("'\\65\\x41\\u{41}'").unwrap(), b"AAA");
        assert_eq!(decode_token("[[\nx\r\ny]]").unwrap(), b"x\ny");
        assert_eq!(decode_token("'a\\z  \n b'").unwrap(), b"ab");
    }
}
