//! Structural dump of a full_moon AST into the uniform node shape of spec/LuaSyntax.tla:
//! every node is {k: kind, a: attribute, c: children}. Parentheses, call forms etc. are
//! dumped as they are; the only value normalisation is on literal leaves (decoded string
//! value, canonical number value) because TLC cannot look inside a string.

use crate::decode;
use full_moon::ast::*;
use full_moon::ast::luau::{TypeFieldKey, TypeInfo, TypeSpecifier};
use full_moon::node::Node as FmNode;
use full_moon::tokenizer::{TokenReference, TokenType};
use serde::{Deserialize, Serialize};

#[derive(Serialize, Deserialize, Clone, PartialEq, Eq, Debug, Hash)]
pub struct Node {
    pub k: String,
    pub a: String,
    pub c: Vec<Node>,
}

pub fn n(k: &str, a: impl Into<String>, c: Vec<Node>) -> Node {
    Node { k: k.to_string(), a: a.into(), c }
}

fn tok_text(t: &TokenReference) -> String {
    t.token().to_string()
}

/// Normalised token text of any node (used for Luau types and other opaque constructs):
/// tokens without trivia joined by a space; string and number tokens by value.
pub fn opaque_text<T: FmNode>(node: &T) -> String {
    let mut toks: Vec<&TokenReference> = node.tokens().collect();
    toks.sort_by_key(|t| t.token().start_position().bytes());
    let mut parts = Vec::new();
    for t in toks {
        match t.token_type() {
            TokenType::StringLiteral { .. } => {
                let raw = t.token().to_string();
                parts.push(format!("S<{}>", decode::decode_token(&raw).map(|b| decode::canon_bytes(&b)).unwrap_or(raw)));
            }
            TokenType::Number { text } => parts.push(format!("N<{}>", decode::num_value(text.as_str()))),
            TokenType::Eof => {}
            // parentheses and separators in types are not compared (redundant type parentheses may be
            // removed, trailing separators added); the Luau type-parenthesis rule is not modelled yet
            // (DESIGN.md section 10)
            TokenType::Symbol { symbol } if matches!(symbol, full_moon::tokenizer::Symbol::LeftParen | full_moon::tokenizer::Symbol::RightParen
                | full_moon::tokenizer::Symbol::Comma | full_moon::tokenizer::Symbol::Semicolon) => {}
            _ => parts.push(t.token().to_string()),
        }
    }
    parts.join(" ")
}

/// Luau types, structurally: parentheses are `ttuple` nodes (a tuple of one is a parenthesised type).
pub fn p_type(t: &TypeInfo) -> Node {
    match t {
        TypeInfo::Array { type_info, access, .. } => n("tarray", access.as_ref().map(tok_text).unwrap_or_default(), vec![p_type(type_info)]),
        TypeInfo::Basic(tok) => n("tname", tok_text(tok), vec![]),
        TypeInfo::String(tok) => n("tlit", decode::decode_token(&tok_text(tok)).map(|b| decode::canon_bytes(&b)).unwrap_or_else(|| tok_text(tok)), vec![]),
        TypeInfo::Boolean(tok) => n("tlit", tok_text(tok), vec![]),
        TypeInfo::Callback { generics, arguments, return_type, .. } => {
            let mut c = Vec::new();
            c.push(n("tgenerics", generics.as_ref().map(|g| opaque_text(g)).unwrap_or_default(), vec![]));
            for a in arguments.iter() {
                c.push(n("targ", a.name().map(|(nm, _)| tok_text(nm)).unwrap_or_default(), vec![p_type(a.type_info())]));
            }
            c.push(n("tret", "", vec![p_type(return_type)]));
            n("tfunc", "", c)
        }
        TypeInfo::Generic { base, generics, .. } => n("tgeneric", tok_text(base), generics.iter().map(p_type).collect()),
        TypeInfo::GenericPack { name, .. } => n("tpack", tok_text(name), vec![]),
        TypeInfo::Intersection(i) => n("tinter", "", i.types().iter().map(p_type).collect()),
        TypeInfo::Union(u) => n("tunion", "", u.types().iter().map(p_type).collect()),
        TypeInfo::Optional { base, .. } => n("topt", "", vec![p_type(base)]),
        TypeInfo::Table { fields, .. } => n(
            "ttable",
            "",
            fields
                .iter()
                .map(|f| {
                    let (key, kc) = match f.key() {
                        TypeFieldKey::Name(tok) => (tok_text(tok), vec![]),
                        TypeFieldKey::IndexSignature { inner, .. } => ("[]".to_string(), vec![p_type(inner)]),
                        other => (opaque_text(other), vec![]),
                    };
                    let mut c = kc;
                    c.push(p_type(f.value()));
                    n("tfield", format!("{}{}", f.access().map(|a| format!("{} ", tok_text(a))).unwrap_or_default(), key), c)
                })
                .collect(),
        ),
        TypeInfo::Typeof { inner, .. } => n("ttypeof", "", vec![p_expr(inner)]),
        TypeInfo::Tuple { types, .. } => n("ttuple", "", types.iter().map(p_type).collect()),
        TypeInfo::Variadic { type_info, .. } => n("tvariadic", "", vec![p_type(type_info)]),
        TypeInfo::VariadicPack { name, .. } => n("tvpack", tok_text(name), vec![]),
        other => n("opaque", opaque_text(other), vec![]),
    }
}

pub fn p_str_token(t: &TokenReference) -> Node {
    let raw = t.token().to_string();
    let v = decode::decode_token(&raw).map(|b| decode::canon_bytes(&b)).unwrap_or_else(|| format!("raw:{}", raw));
    n("str", v, vec![])
}

pub fn p_expr(e: &Expression) -> Node {
    match e {
        Expression::BinaryOperator { lhs, binop, rhs } => n("bin", tok_text(binop.token()), vec![p_expr(lhs), p_expr(rhs)]),
        Expression::Parentheses { expression, .. } => n("par", "", vec![p_expr(expression)]),
        Expression::UnaryOperator { unop, expression } => n("un", tok_text(unop.token()), vec![p_expr(expression)]),
        Expression::Function(b) => n("func", "", p_funcbody(&b.1)),
        Expression::FunctionCall(fc) => p_chain(fc.prefix(), fc.suffixes()),
        Expression::IfExpression(ie) => {
            let mut c = vec![p_expr(ie.condition()), p_expr(ie.if_expression())];
            if let Some(eis) = ie.else_if_expressions() {
                for ei in eis {
                    c.push(p_expr(ei.condition()));
                    c.push(p_expr(ei.expression()));
                }
            }
            c.push(p_expr(ie.else_expression()));
            n("ifexp", "", c)
        }
        Expression::InterpolatedString(is) => {
            let mut lits = Vec::new();
            let mut c = Vec::new();
            for seg in is.segments() {
                lits.push(seg_text(&seg.literal));
                c.push(p_expr(&seg.expression));
            }
            lits.push(seg_text(is.last_string()));
            n("interp", lits.join("|"), c)
        }
        Expression::TableConstructor(t) => p_table(t),
        Expression::Number(t) => n("num", decode::num_value(&tok_text(t)), vec![]),
        Expression::String(t) => p_str_token(t),
        Expression::Symbol(t) => {
            let s = tok_text(t);
            if s == "..." {
                n("vararg", "", vec![])
            } else {
                n("sym", s, vec![])
            }
        }
        Expression::TypeAssertion { expression, type_assertion } => {
            n("cast", "", vec![p_expr(expression), n("type", "", vec![p_type(type_assertion.cast_to())])])
        }
        Expression::Var(v) => p_var(v),
        other => n("opaque", opaque_text(other), vec![]),
    }
}

fn seg_text(t: &TokenReference) -> String {
    match t.token_type() {
        TokenType::InterpolatedString { literal, .. } => decode::canon_bytes(&decode::decode_quoted(literal.as_str().as_bytes())),
        _ => tok_text(t),
    }
}

pub fn p_var(v: &Var) -> Node {
    match v {
        Var::Name(t) => n("name", tok_text(t), vec![]),
        Var::Expression(ve) => p_chain(ve.prefix(), ve.suffixes()),
        other => n("opaque", opaque_text(other), vec![]),
    }
}

fn p_chain<'a>(prefix: &Prefix, suffixes: impl Iterator<Item = &'a Suffix>) -> Node {
    let mut c = Vec::new();
    c.push(match prefix {
        Prefix::Name(t) => n("name", tok_text(t), vec![]),
        Prefix::Expression(e) => p_expr(e),
        other => n("opaque", opaque_text(other), vec![]),
    });
    for s in suffixes {
        c.push(match s {
            Suffix::Index(Index::Dot { name, .. }) => n("dot", tok_text(name), vec![]),
            Suffix::Index(Index::Brackets { expression, .. }) => n("idx", "", vec![p_expr(expression)]),
            Suffix::Call(Call::AnonymousCall(args)) => p_args(args),
            Suffix::Call(Call::MethodCall(mc)) => n("mcall", tok_text(mc.name()), vec![p_args(mc.args())]),
            other => n("opaque", opaque_text(other), vec![]),
        });
    }
    n("chain", "", c)
}

fn p_args(a: &FunctionArgs) -> Node {
    match a {
        FunctionArgs::Parentheses { arguments, .. } => n("call", "paren", arguments.iter().map(p_expr).collect()),
        FunctionArgs::String(t) => n("call", "str", vec![p_str_token(t)]),
        FunctionArgs::TableConstructor(t) => n("call", "table", vec![p_table(t)]),
        other => n("opaque", opaque_text(other), vec![]),
    }
}

fn p_table(t: &TableConstructor) -> Node {
    let mut c = Vec::new();
    let mut seps = String::new();
    for pair in t.fields().pairs() {
        if let Some(p) = pair.punctuation() {
            seps.push_str(&tok_text(p));
        }
        let f = pair.value();
        c.push(match f {
            Field::NoKey(e) => n("f_pos", "", vec![p_expr(e)]),
            Field::NameKey { key, value, .. } => n("f_name", tok_text(key), vec![p_expr(value)]),
            Field::ExpressionKey { key, value, .. } => n("f_expr", "", vec![p_expr(key), p_expr(value)]),
            other => n("opaque", opaque_text(other), vec![]),
        });
    }
    n("table", seps, c)
}

fn p_typespec(ts: Option<&TypeSpecifier>) -> Vec<Node> {
    match ts {
        Some(t) => vec![n("type", "", vec![p_type(t.type_info())])],
        None => vec![],
    }
}

/// children of a function: params, rettype (type node or absent), block
fn p_funcbody(b: &FunctionBody) -> Vec<Node> {
    let mut params = Vec::new();
    let specs: Vec<Option<&TypeSpecifier>> = b.type_specifiers().collect();
    for (i, p) in b.parameters().iter().enumerate() {
        let ts = p_typespec(specs.get(i).cloned().flatten());
        params.push(match p {
            Parameter::Name(t) => n("pname", tok_text(t), ts),
            Parameter::Ellipsis(_) => n("pvararg", "", ts),
            other => n("opaque", opaque_text(other), vec![]),
        });
    }
    let mut c = vec![n("params", b.generics().map(|g| opaque_text(g)).unwrap_or_default(), params)];
    c.push(n("ret", "", p_typespec(b.return_type())));
    c.push(p_block(b.block()));
    c
}

pub fn p_block(b: &Block) -> Node {
    let mut c: Vec<Node> = Vec::new();
    for (s, semi) in b.stmts_with_semicolon() {
        let x = p_stmt(s);
        c.push(if semi.is_some() { n("semi", "", vec![x]) } else { x });
    }
    if let Some((ls, semi)) = b.last_stmt_with_semicolon() {
        let x = match ls {
            LastStmt::Break(_) => n("break", "", vec![]),
            LastStmt::Continue(_) => n("continue", "", vec![]),
            LastStmt::Return(r) => n("return", "", vec![n("exprs", "", r.returns().iter().map(p_expr).collect())]),
            other => n("opaque", opaque_text(other), vec![]),
        };
        c.push(if semi.is_some() { n("semi", "", vec![x]) } else { x });
    }
    n("block", "", c)
}

pub fn p_stmt(s: &Stmt) -> Node {
    match s {
        Stmt::Assignment(a) => n(
            "assign",
            "",
            vec![n("vars", "", a.variables().iter().map(p_var).collect()), n("exprs", "", a.expressions().iter().map(p_expr).collect())],
        ),
        Stmt::Do(d) => n("do", "", vec![p_block(d.block())]),
        Stmt::FunctionCall(fc) => n("callstmt", "", vec![p_chain(fc.prefix(), fc.suffixes())]),
        Stmt::FunctionDeclaration(fd) => {
            let mut name: Vec<String> = fd.name().names().iter().map(tok_text).collect();
            let mut nm = name.join(".");
            if let Some(m) = fd.name().method_name() {
                nm = format!("{}:{}", nm, tok_text(m));
            }
            name.clear();
            n("function", nm, p_funcbody(fd.body()))
        }
        Stmt::GenericFor(g) => {
            let specs: Vec<Option<&TypeSpecifier>> = g.type_specifiers().collect();
            let names = g.names().iter().enumerate().map(|(i, t)| n("lname", tok_text(t), p_typespec(specs.get(i).cloned().flatten()))).collect();
            n("genfor", "", vec![n("names", "", names), n("exprs", "", g.expressions().iter().map(p_expr).collect()), p_block(g.block())])
        }
        Stmt::If(i) => {
            let mut c = vec![p_expr(i.condition()), p_block(i.block())];
            if let Some(eis) = i.else_if() {
                for ei in eis {
                    c.push(p_expr(ei.condition()));
                    c.push(p_block(ei.block()));
                }
            }
            let has_else = i.else_block().is_some();
            if let Some(eb) = i.else_block() {
                c.push(p_block(eb));
            }
            n("if", if has_else { "else" } else { "" }, c)
        }
        Stmt::LocalAssignment(l) => {
            let specs: Vec<Option<&TypeSpecifier>> = l.type_specifiers().collect();
            let attrs: Vec<Option<&full_moon::ast::lua54::Attribute>> = l.attributes().collect();
            let names = l
                .names()
                .iter()
                .enumerate()
                .map(|(i, t)| {
                    let mut c = p_typespec(specs.get(i).cloned().flatten());
                    if let Some(Some(a)) = attrs.get(i) {
                        c.push(n("attrib", tok_text(a.name()), vec![]));
                    }
                    n("lname", tok_text(t), c)
                })
                .collect();
            n("local", if l.equal_token().is_some() { "=" } else { "" }, vec![n("names", "", names), n("exprs", "", l.expressions().iter().map(p_expr).collect())])
        }
        Stmt::LocalFunction(lf) => n("localfunction", tok_text(lf.name()), p_funcbody(lf.body())),
        Stmt::NumericFor(f) => {
            let mut c = vec![n("lname", tok_text(f.index_variable()), p_typespec(f.type_specifier())), p_expr(f.start()), p_expr(f.end())];
            if let Some(st) = f.step() {
                c.push(p_expr(st));
            }
            let a = if f.step().is_some() { "step" } else { "" };
            c.push(p_block(f.block()));
            n("numfor", a, c)
        }
        Stmt::Repeat(r) => n("repeat", "", vec![p_block(r.block()), p_expr(r.until())]),
        Stmt::While(w) => n("while", "", vec![p_expr(w.condition()), p_block(w.block())]),
        Stmt::CompoundAssignment(ca) => n("compound", tok_text(ca.compound_operator().token()), vec![p_var(ca.lhs()), p_expr(ca.rhs())]),
        Stmt::Goto(g) => n("goto", tok_text(g.label_name()), vec![]),
        Stmt::Label(l) => n("label", tok_text(l.name()), vec![]),
        Stmt::TypeDeclaration(td) => n(
            "typedecl",
            tok_text(td.type_name()),
            vec![n("tgenerics", td.generics().map(|g| opaque_text(g)).unwrap_or_default(), vec![]), p_type(td.type_definition())],
        ),
        Stmt::ExportedTypeDeclaration(etd) => {
            let td = etd.type_declaration();
            n(
                "typedecl",
                format!("export {}", tok_text(td.type_name())),
                vec![n("tgenerics", td.generics().map(|g| opaque_text(g)).unwrap_or_default(), vec![]), p_type(td.type_definition())],
            )
        }
        Stmt::TypeFunction(tf) => n("typefunction", tok_text(tf.function_name()), p_funcbody(tf.function_body())),
        Stmt::ExportedTypeFunction(etf) => {
            n("typefunction", format!("export {}", tok_text(etf.type_function().function_name())), p_funcbody(etf.type_function().function_body()))
        }
        other => n("opaque", opaque_text(other), vec![]),
    }
}

pub fn p_ast(ast: &Ast) -> Node {
    p_block(ast.nodes())
}

// ------------------------------------------------------------------------------------------
// Rust mirror of LuaSyntax!Meaning (used for corpus-sized inputs where TLC compares digests;
// cross-checked against TLC's own Meaning on every generated case).

fn unwrap_par(t: &Node) -> &Node {
    let mut t = t;
    while t.k == "par" {
        t = &t.c[0];
    }
    t
}

fn is_multi(t: &Node) -> bool {
    // a node that can produce several values
    t.k == "vararg" || (t.k == "chain" && matches!(t.c.last().map(|s| s.k.as_str()), Some("call") | Some("mcall")))
}

pub fn meaning(t: &Node, open: bool) -> Node {
    match t.k.as_str() {
        "par" => {
            let inner = unwrap_par(t);
            if open && is_multi(inner) {
                n("trunc", "", vec![meaning(inner, false)])
            } else {
                meaning(inner, false)
            }
        }
        "semi" => meaning(&t.c[0], false),
        "ttuple" if t.c.len() == 1 => meaning(&t.c[0], false),
        "tunion" | "tinter" => {
            let mut c: Vec<Node> = Vec::new();
            for x in &t.c {
                let m = meaning(x, false);
                if m.k == t.k {
                    c.extend(m.c);
                } else {
                    c.push(m);
                }
            }
            n(&t.k, "", c)
        }
        "chain" => {
            let mut c: Vec<Node> = Vec::new();
            let p = meaning(&t.c[0], false);
            if p.k == "chain" {
                c.extend(p.c);
            } else {
                c.push(p);
            }
            for s in &t.c[1..] {
                c.push(meaning(s, false));
            }
            n("chain", "", c)
        }
        "call" => {
            let len = t.c.len();
            n("call", "", t.c.iter().enumerate().map(|(i, x)| meaning(x, i + 1 == len)).collect())
        }
        "return" => {
            let ex = &t.c[0];
            let len = ex.c.len();
            n("return", "", vec![n("exprs", "", ex.c.iter().enumerate().map(|(i, x)| meaning(x, i + 1 == len)).collect())])
        }
        "local" | "assign" => {
            let targets = t.c[0].c.len();
            let ex = &t.c[1];
            let len = ex.c.len();
            let open_last = targets > len;
            n(
                &t.k,
                t.a.clone(),
                vec![meaning(&t.c[0], false), n("exprs", "", ex.c.iter().enumerate().map(|(i, x)| meaning(x, open_last && i + 1 == len)).collect())],
            )
        }
        "genfor" => {
            let ex = &t.c[1];
            let len = ex.c.len();
            let open_last = len < 4;
            n(
                "genfor",
                "",
                vec![
                    meaning(&t.c[0], false),
                    n("exprs", "", ex.c.iter().enumerate().map(|(i, x)| meaning(x, open_last && i + 1 == len)).collect()),
                    meaning(&t.c[2], false),
                ],
            )
        }
        "table" => {
            let len = t.c.len();
            n(
                "table",
                "",
                t.c.iter()
                    .enumerate()
                    .map(|(i, f)| if f.k == "f_pos" { n("f_pos", "", vec![meaning(&f.c[0], i + 1 == len)]) } else { meaning(f, false) })
                    .collect(),
            )
        }
        _ => n(&t.k, t.a.clone(), t.c.iter().map(|x| meaning(x, false)).collect()),
    }
}

pub fn digest(t: &Node) -> String {
    use std::collections::hash_map::DefaultHasher;
    use std::hash::{Hash, Hasher};
    let mut h = DefaultHasher::new();
    t.hash(&mut h);
    format!("{:016x}", h.finish())
}

fn describe(t: &Node, depth: usize) -> String {
    let a = match t.k.as_str() {
        "name" | "str" | "num" | "lname" | "pname" | "dot" | "f_name" | "function" | "localfunction" | "mcall" | "type" | "opaque" | "goto" | "label" => "",
        _ => t.a.as_str(),
    };
    let head = if a.is_empty() { t.k.clone() } else { format!("{}:{}", t.k, a) };
    if depth == 0 || t.c.is_empty() {
        head
    } else {
        format!("{}[{}]", head, t.c.iter().map(|c| describe(c, depth - 1)).collect::<Vec<_>>().join(","))
    }
}

/// Localise the difference of two meaning trees: descend while exactly one child differs.
pub fn diff_site(a: &Node, b: &Node) -> String {
    if a.k == b.k && a.a == b.a && a.c.len() == b.c.len() {
        let d: Vec<usize> = (0..a.c.len()).filter(|i| a.c[*i] != b.c[*i]).collect();
        if d.len() == 1 {
            return diff_site(&a.c[d[0]], &b.c[d[0]]);
        }
    }
    format!("{} => {}", describe(a, 2), describe(b, 2))
}
