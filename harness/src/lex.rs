//! The checker's own Lua lexer (independent of full_moon).
//! Produces tokens with byte spans; comments with bracket level; strings with raw body.

#[derive(Clone, Debug, PartialEq, Eq)]
pub enum Kind {
    Name,
    Keyword,
    Number,
    /// quote: b'"' / b'\'' for quoted, b'[' for long bracket, b'`' for interpolated piece
    Str { quote: u8, level: usize },
    Symbol,
    LineComment,
    BlockComment { level: usize },
    Shebang,
    Whitespace,
    /// anything the lexer cannot classify (one byte)
    Unknown,
}

#[derive(Clone, Debug)]
pub struct Tok {
    pub kind: Kind,
    pub start: usize,
    pub end: usize,
}

impl Tok {
    pub fn text<'a>(&self, src: &'a str) -> &'a str {
        &src[self.start..self.end]
    }
    pub fn is_comment(&self) -> bool {
        matches!(self.kind, Kind::LineComment | Kind::BlockComment { .. } | Kind::Shebang)
    }
    pub fn is_trivia(&self) -> bool {
        self.is_comment() || self.kind == Kind::Whitespace
    }
}

const KEYWORDS: &[&str] = &[
    "and", "break", "do", "else", "elseif", "end", "false", "for", "function", "goto", "if", "in",
    "local", "nil", "not", "or", "repeat", "return", "then", "true", "until", "while",
];

const SYMBOLS: &[&str] = &[
    "...", "..=", "//=", "<<", ">>", "//", "..", "==", "~=", "<=", ">=", "::", "->", "+=", "-=",
    "*=", "/=", "%=", "^=", "+", "-", "*", "/", "%", "^", "#", "&", "~", "|", "<", ">", "=", "(",
    ")", "{", "}", "[", "]", ";", ":", ",", ".", "?", "@",
];

fn is_word_start(c: u8) -> bool {
    c == b'_' || c.is_ascii_alphabetic() || c >= 0x80
}
fn is_word(c: u8) -> bool {
    c == b'_' || c.is_ascii_alphanumeric() || c >= 0x80
}

/// If `s[i..]` starts a long bracket opener `[`, `=`*, `[`, return its level.
fn long_open(s: &[u8], i: usize) -> Option<usize> {
    if s.get(i) != Some(&b'[') {
        return None;
    }
    let mut j = i + 1;
    while s.get(j) == Some(&b'=') {
        j += 1;
    }
    if s.get(j) == Some(&b'[') {
        Some(j - i - 1)
    } else {
        None
    }
}

/// Find the end (exclusive, after the closer) of a long bracket of `level` whose body starts at `i`.
fn long_close(s: &[u8], mut i: usize, level: usize) -> usize {
    while i < s.len() {
        if s[i] == b']' {
            let mut j = i + 1;
            while s.get(j) == Some(&b'=') {
                j += 1;
            }
            if j - i - 1 == level && s.get(j) == Some(&b']') {
                return j + 1;
            }
            // a failed closer: continue scanning from the next char (']' may start a new closer)
            i += 1;
            continue;
        }
        i += 1;
    }
    s.len()
}

pub struct Lexer<'a> {
    s: &'a [u8],
    i: usize,
    pub toks: Vec<Tok>,
    /// treat `//` as an operator (5.3+/Luau) - always on: `//` never starts anything else in Lua
    _p: (),
}

pub fn lex(src: &str) -> Vec<Tok> {
    let mut lx = Lexer { s: src.as_bytes(), i: 0, toks: Vec::new(), _p: () };
    if lx.s.starts_with(b"#!") {
        let mut j = 0;
        while j < lx.s.len() && lx.s[j] != b'\n' {
            j += 1;
        }
        // shebang excludes a trailing \r
        let mut e = j;
        if e > 0 && lx.s[e - 1] == b'\r' {
            e -= 1;
        }
        lx.toks.push(Tok { kind: Kind::Shebang, start: 0, end: e });
        lx.i = e;
    }
    lx.run(None);
    lx.toks
}

impl<'a> Lexer<'a> {
    fn push(&mut self, kind: Kind, start: usize, end: usize) {
        self.toks.push(Tok { kind, start, end });
        self.i = end;
    }

    /// Lex until end of input or, if `until_brace` is Some(depth), until the `}` closing an
    /// interpolation expression.
    fn run(&mut self, until_brace: Option<()>) {
        let s = self.s;
        let mut depth = 0usize;
        while self.i < s.len() {
            let i = self.i;
            let c = s[i];
            if c == b' ' || c == b'\t' || c == b'\n' || c == b'\r' || c == 0x0b || c == 0x0c {
                let mut j = i;
                while j < s.len() && matches!(s[j], b' ' | b'\t' | b'\n' | b'\r' | 0x0b | 0x0c) {
                    j += 1;
                }
                self.push(Kind::Whitespace, i, j);
                continue;
            }
            if c == b'-' && s.get(i + 1) == Some(&b'-') {
                if let Some(level) = long_open(s, i + 2) {
                    let e = long_close(s, i + 2 + level + 2, level);
                    self.push(Kind::BlockComment { level }, i, e);
                } else {
                    let mut j = i;
                    while j < s.len() && s[j] != b'\n' {
                        j += 1;
                    }
                    self.push(Kind::LineComment, i, j);
                }
                continue;
            }
            if is_word_start(c) {
                let mut j = i;
                while j < s.len() && is_word(s[j]) {
                    j += 1;
                }
                let w = std::str::from_utf8(&s[i..j]).unwrap_or("");
                let k = if KEYWORDS.contains(&w) { Kind::Keyword } else { Kind::Name };
                self.push(k, i, j);
                continue;
            }
            if c.is_ascii_digit() || (c == b'.' && s.get(i + 1).map_or(false, |d| d.is_ascii_digit())) {
                let j = self.number_end(i);
                self.push(Kind::Number, i, j);
                continue;
            }
            if c == b'"' || c == b'\'' {
                let mut j = i + 1;
                while j < s.len() && s[j] != c {
                    if s[j] == b'\\' {
                        j += 1;
                        // \r\n after a backslash is one continuation
                        if s.get(j) == Some(&b'\r') && s.get(j + 1) == Some(&b'\n') {
                            j += 1;
                        }
                    } else if s[j] == b'\n' {
                        // unterminated; stop at line end so that the rest still lexes
                        // (full_moon accepts some of these; keep going to the quote)
                    }
                    j += 1;
                }
                let e = (j + 1).min(s.len());
                self.push(Kind::Str { quote: c, level: 0 }, i, e);
                continue;
            }
            if c == b'[' {
                if let Some(level) = long_open(s, i) {
                    let e = long_close(s, i + level + 2, level);
                    self.push(Kind::Str { quote: b'[', level }, i, e);
                    continue;
                }
            }
            if c == b'`' {
                self.interp(i);
                continue;
            }
            if until_brace.is_some() {
                if c == b'{' {
                    depth += 1;
                } else if c == b'}' {
                    if depth == 0 {
                        return; // caller consumes the brace as part of the string piece
                    }
                    depth -= 1;
                }
            }
            let mut matched = false;
            for sym in SYMBOLS {
                if s[i..].starts_with(sym.as_bytes()) {
                    self.push(Kind::Symbol, i, i + sym.len());
                    matched = true;
                    break;
                }
            }
            if !matched {
                // step over one UTF-8 scalar
                let mut j = i + 1;
                while j < s.len() && (s[j] & 0xC0) == 0x80 {
                    j += 1;
                }
                self.push(Kind::Unknown, i, j);
            }
        }
    }

    fn number_end(&self, i: usize) -> usize {
        let s = self.s;
        let mut j = i;
        let hex = s[i] == b'0' && matches!(s.get(i + 1), Some(b'x') | Some(b'X'));
        if hex {
            j += 2;
        }
        while j < s.len() {
            let c = s[j];
            if c.is_ascii_alphanumeric() || c == b'_' {
                let is_exp = if hex { c == b'p' || c == b'P' } else { c == b'e' || c == b'E' };
                j += 1;
                if is_exp && matches!(s.get(j), Some(b'+') | Some(b'-')) {
                    j += 1;
                }
            } else if c == b'.' {
                // `1..2` is number, concat: stop before `..`
                if s.get(j + 1) == Some(&b'.') {
                    break;
                }
                j += 1;
            } else {
                break;
            }
        }
        j
    }

    /// Luau interpolated string starting at the backtick at `i`.
    fn interp(&mut self, i: usize) {
        let s = self.s;
        let mut piece_start = i;
        let mut j = i + 1;
        loop {
            if j >= s.len() {
                self.push(Kind::Str { quote: b'`', level: 0 }, piece_start, s.len());
                return;
            }
            match s[j] {
                b'\\' => j += 2,
                b'`' => {
                    self.push(Kind::Str { quote: b'`', level: 0 }, piece_start, j + 1);
                    return;
                }
                b'{' => {
                    self.push(Kind::Str { quote: b'`', level: 0 }, piece_start, j + 1);
                    self.run(Some(()));
                    // now at the closing brace (or end)
                    piece_start = self.i;
                    j = self.i + 1;
                }
                _ => j += 1,
            }
        }
    }
}

/// Split a comment token into (kind, level, text) for the census.
/// Line comment: text after `--` with trailing whitespace (incl. \r) removed.
/// Block comment: body between the brackets with newline sequences normalised to \n.
pub fn comment_key(t: &Tok, src: &str) -> (String, usize, String) {
    let text = t.text(src);
    match &t.kind {
        Kind::LineComment => {
            let body = &text[2..];
            ("line".into(), 0, body.trim_end_matches(|c: char| c == ' ' || c == '\t' || c == '\r' || c == '\x0b' || c == '\x0c').to_string())
        }
        Kind::BlockComment { level } => {
            let open = 2 + level + 2;
            let close = level + 2;
            let body = if text.len() >= open + close { &text[open..text.len() - close] } else { &text[open.min(text.len())..] };
            ("block".into(), *level, norm_newlines(body))
        }
        Kind::Shebang => ("shebang".into(), 0, text.trim_end().to_string()),
        _ => unreachable!(),
    }
}

pub fn norm_newlines(s: &str) -> String {
    let b = s.as_bytes();
    let mut out = String::with_capacity(s.len());
    let mut i = 0;
    let mut last = 0;
    while i < b.len() {
        if b[i] == b'\r' {
            out.push_str(&s[last..i]);
            out.push('\n');
            if b.get(i + 1) == Some(&b'\n') {
                i += 1;
            }
            i += 1;
            last = i;
        } else {
            i += 1;
        }
    }
    out.push_str(&s[last..]);
    out
}

#[cfg(test)]
mod tests {
    use super::*;
    #[test]
    fn basic() {
        let src = "local x = 1 -- c\nf[[a]] --[==[ b ]==] .5 1..2 a.b 0x1p-3 1e+5";
        let t: Vec<_> = lex(src).into_iter().filter(|t| t.kind != Kind::Whitespace).map(|t| t.text(src).to_string()).collect();
        assert_eq!(t, vec!["local", "x", "=", "1", "-- c", "f", "[[a]]", "--[==[ b ]==]", ".5", "1", "..", "2", "a", ".", "b", "0x1p-3", "1e+5"]);
    }
    #[test]
    fn interp() {
        let src = "x = `a{ {1}[1] }b{y}` .. z";
        let t: Vec<_> = lex(src).into_iter().filter(|t| t.kind != Kind::Whitespace).map(|t| t.text(src).to_string()).collect();
        assert_eq!(t, vec!["x", "=", "`a{", "{", "1", "}", "[", "1", "]", "}b{", "y", "}`", "..", "z"]);
    }
}
