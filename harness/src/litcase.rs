//! Replay of literal cases (C04 / C11 quotes): a string body given as a symbol sequence is
//! placed into a syntactic position, formatted under every quote style and line ending, and
//! the output token is mapped back to symbols.
use crate::decode;
use crate::lex::{self, Kind};
use crate::libcase::{fm_parse, parse_cfg, run_format, Outcome};
use serde_json::{json, Value};

fn sym_to_str(s: &str) -> String {
    match s {
        "SQ" => "'".into(),
        "DQ" => "\"".into(),
        "BS" => "\\".into(),
        "LB" => "{".into(),
        "RB" => "}".into(),
        "LF" => "\n".into(),
        "CR" => "\r".into(),
        "SP" => " ".into(),
        "EA" => "é".into(),
        "RBK" => "]".into(),
        "LBK" => "[".into(),
        "EQ" => "=".into(),
        other => other.to_string(),
    }
}

fn str_to_syms(s: &str, long: bool) -> (Vec<String>, bool) {
    let mut out = Vec::new();
    let mut ok = true;
    for ch in s.chars() {
        let m = match ch {
            '\'' => "SQ",
            '"' => "DQ",
            '\\' => "BS",
            '{' => "LB",
            '}' => "RB",
            '\n' => "LF",
            '\r' => "CR",
            ' ' => "SP",
            'é' => "EA",
            ']' if long => "RBK",
            '[' if long => "LBK",
            '=' if long => "EQ",
            'n' | '0' | '1' | '9' | 'x' | 'u' | 'z' | 'a' | 'q' => {
                out.push(ch.to_string());
                continue;
            }
            _ => {
                ok = false;
                out.push(format!("?{}", ch));
                continue;
            }
        };
        out.push(m.to_string());
    }
    (out, ok)
}

const POSITIONS: &[(&str, &str)] = &[
    ("expr", "local x = §\n"),
    ("callarg", "f §\n"),
    ("tablekey", "local t = {[ § ] = 1}\n"),
    ("index", "local y = t[ § ]\n"),
    ("method", "o:m §\n"),
    ("index_par", "local y = t[(§)]\n"),
    ("tablekey_par", "local t = {[(§)] = 1}\n"),
    ("callarg_par", "f((§))\n"),
    ("index_cat", "local y = t[§ .. b]\n"),
    ("tablekey_cat", "local t = {[§ .. b] = 1}\n"),
];

pub fn process(case: &Value) -> Vec<Value> {
    let id = case.get("id").cloned().unwrap_or(json!("?"));
    let kind = case["kind"].as_str().unwrap_or("");
    let syms: Vec<String> = case["body"].as_array().map(|a| a.iter().map(|x| x.as_str().unwrap_or("").to_string()).collect()).unwrap_or_default();
    let body: String = syms.iter().map(|s| sym_to_str(s)).collect();
    let (token, long) = match kind {
        "strlit" => {
            let q = if case["q"] == "SQ" { "'" } else { "\"" };
            (format!("{}{}{}", q, body, q), false)
        }
        "longlit" => {
            let lvl = case["level"].as_u64().unwrap_or(0) as usize;
            (format!("[{}[{}]{}]", "=".repeat(lvl), body, "=".repeat(lvl)), true)
        }
        "numlit" => (case["text"].as_str().unwrap_or("0").to_string(), false),
        _ => return vec![json!({"ev": "ToolError", "id": id, "msg": "unknown literal kind"})],
    };
    let syntax = case.get("syntax").and_then(|s| s.as_str()).unwrap_or("Lua51").to_string();
    let positions: Vec<&str> = case.get("positions").and_then(|p| p.as_array()).map(|a| a.iter().filter_map(|x| x.as_str()).collect()).unwrap_or_else(|| vec!["expr"]);
    let styles = ["AutoPreferDouble", "AutoPreferSingle", "ForceDouble", "ForceSingle"];
    let eols = ["Unix", "Windows"];
    let mut evs = Vec::new();
    for pos in positions {
        let tmpl = POSITIONS.iter().find(|(n, _)| *n == pos).map(|(_, t)| *t).unwrap_or("local x = §\n");
        let src = tmpl.replace('§', &token);
        let base_cfg = parse_cfg(&json!({"syntax": syntax})).unwrap();
        let lexer_ok = match fm_parse(&src, &base_cfg) {
            Ok(_) => {
                // the token must be lexed as ONE literal by the checker's lexer too, spanning exactly `token`
                let toks = lex::lex(&src);
                let start = src.find(&token).unwrap_or(0);
                toks.iter().any(|t| t.start == start && t.end == start + token.len() && matches!(t.kind, Kind::Str { .. } | Kind::Number))
            }
            Err(_) => false,
        };
        let mut ev = json!({"ev": "Lit", "id": id, "kind": kind, "pos": pos, "q": case.get("q").cloned().unwrap_or(json!("")),
            "level": case.get("level").cloned().unwrap_or(json!(0)),
            "body": syms, "valid_spec": case.get("valid_spec").cloned().unwrap_or(json!(true)), "lexer_ok": lexer_ok,
            "dec_spec": case.get("dec").cloned().unwrap_or(json!([])), "pred": case.get("pred").cloned().unwrap_or(json!({})),
            "src": src, "syntax": syntax});
        if !lexer_ok {
            ev["variants"] = json!([]);
            evs.push(ev);
            continue;
        }
        if kind == "numlit" {
            ev["val_in"] = json!(decode::num_value(&token));
        } else {
            ev["rust_in"] = json!(decode::decode_token(&token).unwrap_or_default());
        }
        let mut variants: Vec<Value> = Vec::new();
        for st in styles.iter() {
            for eol in eols.iter() {
                let cfg = parse_cfg(&json!({"syntax": syntax, "quote_style": st, "line_endings": eol})).unwrap();
                let (o, _ms) = run_format(&src, cfg, None, false);
                let mut v = match o {
                    Outcome::Ok(out) => {
                        let toks = lex::lex(&out);
                        let lits: Vec<&lex::Tok> = toks.iter().filter(|t| if kind == "numlit" { t.kind == Kind::Number } else { matches!(t.kind, Kind::Str { .. }) }).collect();
                        let reparse_ok = fm_parse(&out, &cfg).is_ok();
                        // the template's own number literals (`= 1`) come after the literal under test
                        let mut v = json!({"outcome": "ok", "reparse_ok": reparse_ok, "n_lits": lits.len(), "out": out});
                        if let Some(t) = lits.first() {
                            let text = t.text(&out);
                            if kind == "numlit" {
                                v["text_out"] = json!(text);
                                v["val_out"] = json!(decode::num_value(text));
                            } else if let Kind::Str { quote, level } = t.kind {
                                let (b, qn) = match quote {
                                    b'"' => (&text[1..text.len() - 1], "DQ"),
                                    b'\'' => (&text[1..text.len() - 1], "SQ"),
                                    _ => (&text[level + 2..text.len() - level - 2], "LONG"),
                                };
                                let (os, ok) = str_to_syms(b, qn == "LONG");
                                v["q_out"] = json!(qn);
                                v["level_out"] = json!(level);
                                v["body_out"] = json!(os);
                                v["alphabet_ok"] = json!(ok);
                                v["rust_out"] = json!(decode::decode_token(text).unwrap_or_default());
                            }
                        }
                        v
                    }
                    Outcome::ParseError(m) => json!({"outcome": "parse_error", "msg": m}),
                    Outcome::OtherError(m) => json!({"outcome": "error", "msg": m}),
                    Outcome::Panic(m) => json!({"outcome": "panic", "msg": m}),
                };
                // merge identical observations
                let key = {
                    let mut k = v.clone();
                    k.as_object_mut().unwrap().remove("cfgs");
                    k.to_string()
                };
                if let Some(existing) = variants.iter_mut().find(|x| x["_key"] == json!(key)) {
                    existing["cfgs"].as_array_mut().unwrap().push(json!({"style": st, "eol": eol}));
                } else {
                    v["_key"] = json!(key);
                    v["cfgs"] = json!([{"style": st, "eol": eol}]);
                    variants.push(v);
                }
            }
        }
        for v in variants.iter_mut() {
            v.as_object_mut().unwrap().remove("_key");
        }
        ev["variants"] = json!(variants);
        evs.push(ev);
    }
    evs
}
