#!/bin/sh
# Build the framework from files on disk only (offline).
set -e
cd "$(dirname "$0")"
mkdir -p build/tmp build/tlc evidence replays
export CARGO_NET_OFFLINE=true
(cd harness && cargo build --release --offline --quiet)
# the hooked command-line binary (cfg stylua_verif) used by C13-C20
(cd /repo && RUSTFLAGS="--cfg stylua_verif --check-cfg cfg(stylua_verif)" CARGO_TARGET_DIR=/verif/build/target-cli \
   cargo build --offline --quiet --bin stylua --features luau,lua52,lua53,lua54,luajit) || true
echo "setup ok"
