#!/bin/sh
# Build the framework from files on disk only (offline).
set -e
cd "$(dirname "$0")"
mkdir -p build/tmp build/tlc evidence replays
export CARGO_NET_OFFLINE=true
(cd harness && cargo build --release --offline --quiet)
echo "setup ok"
