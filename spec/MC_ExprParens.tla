--------------------------- MODULE MC_ExprParens ---------------------------
(***************************************************************************)
(* Generator + design-level check for the parenthesis rule (C01 C02 C05    *)
(* C06 C07).  A case is built as a behaviour:                               *)
(*    Init (an operator skeleton)  -> Decorate* (add a pair of parentheses  *)
(*    at a node / turn a leaf into a call, `...`, number ...; at most        *)
(*    MaxDev decorations) -> Place (put it into a statement context).        *)
(* Every placed state is printed as one JSON line (a case for the replay    *)
(* harness) together with the Impl model's prediction and the verdict of    *)
(* the design-level obligation RuleSafe.                                    *)
(***************************************************************************)
EXTENDS ExprParens, TLC, Json

CONSTANTS BinOpsG, UnOpsG, LeafKindsG, ContextsG, MaxDev, MaxPar, Shapes

VARIABLES tree, ctx, dev, phase
vars == <<tree, ctx, dev, phase>>

L == Name("v")     \* placeholder leaf, relabelled by position when printed

Skeletons ==
  (IF "bb_l" \in Shapes THEN {Bin(o1, Bin(o2, L, L), L) : o1 \in BinOpsG, o2 \in BinOpsG} ELSE {}) \cup
  (IF "bb_r" \in Shapes THEN {Bin(o1, L, Bin(o2, L, L)) : o1 \in BinOpsG, o2 \in BinOpsG} ELSE {}) \cup
  (IF "bu_l" \in Shapes THEN {Bin(o1, Un(u, L), L) : o1 \in BinOpsG, u \in UnOpsG} ELSE {}) \cup
  (IF "bu_r" \in Shapes THEN {Bin(o1, L, Un(u, L)) : o1 \in BinOpsG, u \in UnOpsG} ELSE {}) \cup
  (IF "ub" \in Shapes THEN {Un(u, Bin(o1, L, L)) : o1 \in BinOpsG, u \in UnOpsG} ELSE {}) \cup
  (IF "uu" \in Shapes THEN {Un(u1, Un(u2, L)) : u1 \in UnOpsG, u2 \in UnOpsG} ELSE {}) \cup
  (IF "b" \in Shapes THEN {Bin(o1, L, L) : o1 \in BinOpsG} ELSE {}) \cup
  (IF "u" \in Shapes THEN {Un(u, L) : u \in UnOpsG} ELSE {}) \cup
  (IF "l" \in Shapes THEN {L} ELSE {})

LeafOf(kind) ==
  CASE kind = "call"   -> CallOf("f", <<>>)
    [] kind = "vararg" -> Vararg
    [] kind = "num"    -> Num("1")
    [] kind = "str"    -> Str("s")
    [] kind = "index"  -> Chain(<<Name("t"), Leaf("dot", "k")>>)
    [] kind = "cast"   -> Cast(Name("w"), "T")
    [] kind = "ifexp"  -> IfExp(Name("p"), Name("q"), Name("r"))
    [] kind = "table"  -> Table(<<>>)

(* positions of expression nodes (paths of child indices); does not descend into decorated leaves *)
RECURSIVE Paths(_)
Paths(t) ==
  {<<>>} \cup
  (IF t.k \in {"bin", "un", "par"}
   THEN UNION {{<<i>> \o p : p \in Paths(t.c[i])} : i \in DOMAIN t.c}
   ELSE {})

RECURSIVE Replace(_, _, _)
Replace(t, p, x) ==
  IF p = <<>> THEN x
  ELSE [t EXCEPT !.c = [i \in DOMAIN t.c |-> IF i = Head(p) THEN Replace(t.c[i], Tail(p), x) ELSE t.c[i]]]

Init == /\ tree \in Skeletons /\ ctx = "none" /\ dev = 0 /\ phase = "build"

AddParens ==
  /\ phase = "build" /\ dev < MaxDev
  /\ \E p \in Paths(tree) :
        LET x == At(tree, p) IN
        /\ x.k # "par"                      \* wrap the node itself; nesting comes from wrapping again below
           \/ ParDepth(x) < MaxPar
        /\ ParDepth(x) < MaxPar
        /\ tree' = Replace(tree, p, Par(x))
  /\ dev' = dev + 1 /\ UNCHANGED <<ctx, phase>>

SetLeaf ==
  /\ phase = "build" /\ dev < MaxDev
  /\ \E p \in Paths(tree), kind \in LeafKindsG :
        /\ At(tree, p) = L
        /\ tree' = Replace(tree, p, LeafOf(kind))
  /\ dev' = dev + 1 /\ UNCHANGED <<ctx, phase>>

Place ==
  /\ phase = "build"
  /\ \E c \in ContextsG :
        /\ Faithful(CtxProgram(c, tree))
        /\ ctx' = c
  /\ phase' = "placed" /\ UNCHANGED <<tree, dev>>

Next == AddParens \/ SetLeaf \/ Place
Spec == Init /\ [][Next]_vars

(* relabel placeholder leaves by position so that operands are distinguishable *)
RECURSIVE Label(_, _)
Label(t, p) ==
  IF t = L THEN Name("v" \o p)
  ELSE IF t.k \in {"bin", "un", "par"}
       THEN [t EXCEPT !.c = [i \in DOMAIN t.c |-> Label(t.c[i], p \o (IF i = 1 THEN "l" ELSE "r"))]]
       ELSE t

Case ==
  LET e == Label(tree, "x") IN
  [ tree |-> CtxProgram(ctx, e),
    meta |-> [ src |-> "ExprParens", ctx |-> ctx, epath |-> CtxPath(ctx), dev |-> dev,
               expr |-> e,
               pred |-> Pred(ctx, e),
               design_ok |-> RuleSafe(ctx, e) ] ]

Emit == phase = "placed" => PrintT(<<"CASE", ToJson(Case)>>)

(* Design-level sanity that must hold: the rule never touches a tree without parentheses *)
NoParensNoChange ==
  (phase = "placed" /\ dev = 0) => FmtSingle(tree, "Standard") = tree
=============================================================================
