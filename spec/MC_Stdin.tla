------------------------------ MODULE MC_Stdin ------------------------------
(* Generator for C17 (stdin mode): input class x mode x --stdin-filepath / --respect-ignores situation x extras. *)
EXTENDS Naturals, Sequences, TLC, Json

CONSTANTS Inputs, Modes, PathCases, Extras
VARIABLES c
(* extra "range_end": --range-end 17 alone (every small differing input differs inside its first 17 bytes); explored under the *)
(* default configuration only                                                                                           *)
Init == c \in {r \in {[input |-> i, mode |-> m, pathcase |-> p, extra |-> x] : i \in Inputs, m \in Modes, p \in PathCases, x \in Extras} :
                 r.extra = "range_end" => (r.pathcase \in {"none", "plain", "ign_norespect"} /\ r.input # "large")}
Next == UNCHANGED c
Spec == Init /\ [][Next]_c

(* pathcase: none | plain (not ignored) | ign1 | ign2 | ign3 (ignored directory 1..3 levels above) | ignfile |
             ign_norespect (ignored path but --respect-ignores not given) | cfgdir (directory with its own stylua.toml) |
             ecdir (directory with its own .editorconfig, none in the working directory) *)
(* inputs that differ from their formatted text; "longtail": a first line that needs formatting, then a last line of *)
(* several kilobytes without a final newline (the shape of a vendored / minified file: larger than any stdout buffer, *)
(* not ending in a line terminator)                                                                                  *)
Differing == {"unformatted", "crlf", "nonl", "large", "longtail"}
Passthrough == c.pathcase \in {"ign1", "ign2", "ign3", "ignfile"}
ParseOk == c.input # "invalid"
Expect == [ passthrough |-> Passthrough,
            exit |-> IF Passthrough THEN 0
                     ELSE IF ~ParseOk THEN 2
                     ELSE IF c.mode = "write" THEN 0
                     ELSE IF c.input \in Differing THEN 1 ELSE 0,
            stdout |-> IF Passthrough /\ c.mode = "write" THEN "input"
                       ELSE IF Passthrough THEN "empty"
                       ELSE IF ~ParseOk THEN "empty"
                       ELSE IF c.mode = "write" THEN "fmt"
                       ELSE IF c.input \in Differing THEN "diff" ELSE "empty" ]
Emit == PrintT(<<"CASE", ToJson([c |-> c, expect |-> Expect])>>)
=============================================================================
