SPECIFICATION Spec
CONSTANTS
  ArgKinds = {"name", "str", "tbl", "tblfn", "fn", "call", "pstr", "ptbl"}
  MaxArgs = 3
  TripleKinds = {"name", "tbl", "tblfn", "fn"}
  Suffixes = {"none", "dot", "mcall", "call"}
  Positions = {"stmt", "local"}
INVARIANT Emit
CHECK_DEADLOCK FALSE
