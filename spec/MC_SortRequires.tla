--------------------------- MODULE MC_SortRequires ---------------------------
(***************************************************************************)
(* Generator for require-sorting cases (C12; also C09 with ranges, C08 with *)
(* directives, C03).  Init: a top-level sequence of up to MaxLen items       *)
(* (require / GetService locals with names drawn from a small set with       *)
(* duplicates and mixed case, other statements, multi-name locals);          *)
(* AddDev: a blank line or a comment line between two items, a directive, a  *)
(* semicolon, a trailing comment, one pair of range markers.                 *)
(***************************************************************************)
EXTENDS LuaSyntax, TLC, Json

CONSTANTS ItemCodes, MaxLen, MaxDev, DevTypes

ItemOf(c) == CASE c = "Ra" -> [k |-> "R", n |-> "a"] [] c = "RB" -> [k |-> "R", n |-> "B"] [] c = "Rb" -> [k |-> "R", n |-> "b"]
               [] c = "Rz" -> [k |-> "R", n |-> "_z"] [] c = "Ga" -> [k |-> "G", n |-> "a"] [] c = "Gb" -> [k |-> "G", n |-> "b"]
               [] c = "O" -> [k |-> "O", n |-> ""] [] c = "M" -> [k |-> "M", n |-> ""] [] c = "A" -> [k |-> "A", n |-> ""]
               [] c = "P" -> [k |-> "P", n |-> ""]          \* a statement that starts with a parenthesis: `(g)(a)`
               [] c = "Q" -> [k |-> "Q", n |-> ""]          \* ... `(g).k = 1`: glued to the previous statement it does not even parse
Items == {ItemOf(c) : c \in ItemCodes}
VARIABLES prog, devs
vars == <<prog, devs>>

ReqCall(k) == Chain(<<Name("require"), CallArgs(<<Str("m" \o ToString(k))>>)>>)
SvcCall(k) == Chain(<<Name("game"), N("mcall", "GetService", <<CallArgs(<<Str("S" \o ToString(k))>>)>>)>>)
ItemTree(it, k) ==
  CASE it.k = "R" -> Local(<<it.n>>, <<ReqCall(k)>>)
    [] it.k = "G" -> Local(<<it.n>>, <<SvcCall(k)>>)
    [] it.k = "O" -> Local(<<"q" \o ToString(k)>>, <<Num(ToString(k))>>)
    [] it.k = "M" -> Local(<<"u" \o ToString(k), "w" \o ToString(k)>>, <<ReqCall(k)>>)
    [] it.k = "A" -> Assign(<<Name("g" \o ToString(k))>>, <<ReqCall(k)>>)
    [] it.k = "P" -> CallStmt(Chain(<<Par(Name("g")), CallArgs(<<Name("a" \o ToString(k))>>)>>))
    [] it.k = "Q" -> Assign(<<Chain(<<Par(Name("g")), Leaf("dot", "k")>>)>>, <<Num(ToString(k))>>)

HasDev(ds, t, k) == \E i \in DOMAIN ds : ds[i].t = t /\ ds[i].s = k
Programs == UNION {[1..n -> Items] : n \in 1..MaxLen}
Idx(p) == 1..Len(p)

StartMarks(p) == {"before:" \o ToString(k - 1) : k \in Idx(p)} \cup {"infirst:" \o ToString(k - 1) : k \in Idx(p)} \cup {"none"}
EndMarks(p) == {"after:" \o ToString(k - 1) : k \in Idx(p)} \cup {"last:" \o ToString(k - 1) : k \in Idx(p)} \cup {"none"}

DevOptions(p) ==
  (IF "sep" \in DevTypes THEN {[t |-> "sep", s |-> k, x |-> w, y |-> ""] : k \in Idx(p) \ {1}, w \in {"blank", "comment"}} ELSE {}) \cup
  (IF "dir" \in DevTypes THEN {[t |-> "dir", s |-> k, x |-> d, y |-> ""] : k \in Idx(p), d \in {"ignore", "start", "end", "ignore_ml"}} ELSE {}) \cup
  (IF "semi" \in DevTypes THEN {[t |-> "semi", s |-> k, x |-> "", y |-> ""] : k \in Idx(p)} ELSE {}) \cup
  (IF "cmt" \in DevTypes THEN {[t |-> "cmt", s |-> k, x |-> "after", y |-> ""] : k \in Idx(p)} ELSE {}) \cup
  (IF "lead" \in DevTypes THEN {[t |-> "lead", s |-> k, x |-> "block", y |-> ""] : k \in Idx(p)} ELSE {}) \cup
  (IF "mline" \in DevTypes THEN {[t |-> "mline", s |-> k, x |-> "", y |-> ""] : k \in {j \in Idx(p) : p[j].k = "R"}} ELSE {}) \cup
  (IF "range" \in DevTypes THEN {[t |-> "range", s |-> 0, x |-> a, y |-> b] : a \in StartMarks(p), b \in EndMarks(p)} \ {[t |-> "range", s |-> 0, x |-> "none", y |-> "none"]} ELSE {})

TypeRank(t) == CASE t = "sep" -> 1 [] t = "dir" -> 2 [] t = "semi" -> 3 [] t = "cmt" -> 4 [] t = "lead" -> 5 [] t = "mline" -> 6 [] t = "range" -> 7
XRank(x) == CASE x = "blank" -> 1 [] x = "comment" -> 2 [] x = "ignore" -> 1 [] x = "start" -> 2 [] x = "end" -> 3 [] x = "ignore_ml" -> 4 [] OTHER -> 0
Rank(d) == TypeRank(d.t) * 1000 + d.s * 10 + XRank(d.x)

Init == prog \in Programs /\ devs = <<>>
AddDev ==
  /\ Len(devs) < MaxDev
  /\ \E d \in DevOptions(prog) :
       /\ (devs # <<>> => Rank(d) > Rank(devs[Len(devs)]))
       /\ (d.t = "range" => (devs = <<>> \/ (Len(devs) = 1 /\ devs[1].t = "semi")))   \* a range is explored on its own or next to one `;`
       /\ (d.t = "sep" => ~HasDev(devs, "sep", d.s))
       /\ devs' = Append(devs, d)
  /\ UNCHANGED prog
Next == AddDev
Spec == Init /\ [][Next]_vars

Comments ==
  LET dirText(x) == CASE x = "ignore" -> " stylua: ignore" [] x = "start" -> " stylua: ignore start" [] x = "end" -> " stylua: ignore end"
      \* "ignore_ml": the directive on a line of its own inside a multi-line block comment that also says other things
      one(d) == CASE d.t = "dir" /\ d.x = "ignore_ml" -> <<[before_stmt |-> d.s - 1, kind |-> "mldir", text |-> "stylua: ignore", slot |-> 0]>>
                  [] d.t = "dir" -> <<[before_stmt |-> d.s - 1, kind |-> "ownlinec", text |-> dirText(d.x), slot |-> 0]>>
                  [] d.t = "sep" /\ d.x = "comment" -> <<[before_stmt |-> d.s - 1, kind |-> "ownlinec", text |-> " note", slot |-> 0]>>
                  [] d.t = "sep" /\ d.x = "blank" -> <<[before_stmt |-> d.s - 1, kind |-> "blankline", text |-> "", slot |-> 0]>>
                  [] d.t = "cmt" -> <<[after_stmt |-> d.s - 1, kind |-> "line", text |-> " tc", slot |-> 0]>>
                  \* `--[[lead]] local a = require(..)`: a comment that belongs to the statement and has to move with it
                  [] d.t = "lead" -> <<[before_stmt |-> d.s - 1, kind |-> "block", text |-> "lead", slot |-> 0]>>
                  \* `local a = require(` NEWLINE `"m"` NEWLINE `)`: tokens 5 and 6 of the statement start a new line
                  [] d.t = "mline" -> <<[before_stmt |-> d.s - 1, offset |-> 5, kind |-> "newline", text |-> "", slot |-> 0],
                                       [before_stmt |-> d.s - 1, offset |-> 6, kind |-> "newline", text |-> "", slot |-> 0]>>
                  [] OTHER -> <<>>
      RECURSIVE all(_)
      all(i) == IF i > Len(devs) THEN <<>> ELSE one(devs[i]) \o all(i + 1)
  IN all(1)

RangeDev == {devs[i] : i \in {j \in DOMAIN devs : devs[j].t = "range"}}
Wrap(node, k) == IF HasDev(devs, "semi", k) THEN Semi(node) ELSE node

Case ==
  [ tree |-> Block([k \in DOMAIN prog |-> Wrap(ItemTree(prog[k], k), k)]),
    layout |-> [profile |-> "messy", comments |-> Comments],
    cfg |-> [syntax |-> "Lua51"],
    meta |-> [src |-> "SortRequires", prog |-> prog, devs |-> devs] ]
  @@ (IF RangeDev = {} THEN <<>> ELSE
        LET r == CHOOSE d \in RangeDev : TRUE IN [range_markers |-> [start |-> r.x, end |-> r.y]])

(* a statement that starts with `(` continues the previous one unless a `;` separates them: only programs that mean *)
(* what the generator means are emitted                                                                              *)
NeedsSemiOK == \A k \in 2..Len(prog) : prog[k].k \in {"P", "Q"} => HasDev(devs, "semi", k - 1)
Emit == NeedsSemiOK => PrintT(<<"CASE", ToJson(Case)>>)
=============================================================================
