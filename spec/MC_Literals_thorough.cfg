SPECIFICATION Spec
CONSTANTS
  LAlpha = {"RBK", "EQ", "LBK", "LF", "CR", "a"}
  LMaxLen = 5
  MaxLevel = 2
INVARIANT Emit
CHECK_DEADLOCK FALSE
