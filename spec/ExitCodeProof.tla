--------------------------- MODULE ExitCodeProof ---------------------------
(***************************************************************************)
(* C19, unbounded: for ANY number of files, results and threads and ANY     *)
(* interleaving, the exit status is the maximum of what has been reported,  *)
(* provided every access to it is one of the three atomic operations the    *)
(* current main.rs performs (checked against the recorded accesses of a     *)
(* free run before this theorem is relied on, see tools/clisources.py):     *)
(*    store(2)      the logger hook on an error record, the JSON error path *)
(*    fetch_max(1)  the output thread on a Diff result                      *)
(*    load          the final read                                          *)
(* Every operation is a single atomic step, so the behaviours of any number *)
(* of threads are exactly the sequences of these steps.  `sawErr`/`sawDiff` *)
(* are history variables: what has been reported so far.                    *)
(* The bounded, data-driven model ExitCode.tla stays the instrument that    *)
(* detects a regression (a load;store pair, a compare_exchange): such code  *)
(* is outside this module's vocabulary and the theorem then says nothing.   *)
(***************************************************************************)
EXTENDS Integers, TLAPS

VARIABLES code, sawErr, sawDiff
vars == <<code, sawErr, sawDiff>>

Init == code = 0 /\ sawErr = FALSE /\ sawDiff = FALSE

StoreErr  == code' = 2 /\ sawErr' = TRUE /\ UNCHANGED sawDiff
RaiseDiff == code' = (IF code < 1 THEN 1 ELSE code) /\ sawDiff' = TRUE /\ UNCHANGED sawErr
Load      == UNCHANGED vars

Next == StoreErr \/ RaiseDiff \/ Load
Spec == Init /\ [][Next]_vars

Truthful == code = IF sawErr THEN 2 ELSE IF sawDiff THEN 1 ELSE 0
TypeOK == code \in {0, 1, 2} /\ sawErr \in BOOLEAN /\ sawDiff \in BOOLEAN
Inv == TypeOK /\ Truthful

(* the status never decreases *)
Monotone == [][code' >= code]_vars

LEMMA InitInv == Init => Inv
  BY DEF Init, Inv, TypeOK, Truthful

LEMMA NextInv == Inv /\ [Next]_vars => Inv'
  BY DEF Inv, TypeOK, Truthful, Next, StoreErr, RaiseDiff, Load, vars

THEOREM Safety == Spec => []Inv
  <1>1. Init => Inv BY InitInv
  <1>2. Inv /\ [Next]_vars => Inv' BY NextInv
  <1>. QED BY <1>1, <1>2, PTL DEF Spec

LEMMA StepMonotone == Inv /\ [Next]_vars => (code' >= code \/ UNCHANGED vars)
  BY DEF Inv, TypeOK, Truthful, Next, StoreErr, RaiseDiff, Load, vars

THEOREM NeverLowered == Spec => Monotone
  <1>1. Inv /\ [Next]_vars => [code' >= code]_vars BY StepMonotone
  <1>. QED BY <1>1, Safety, PTL DEF Spec, Monotone
=============================================================================
