SPECIFICATION Spec
CONSTANTS
  MaxDev = 3
  OptionSets = {"none", "config_path", "search_parent", "no_ec", "override", "search_parent+no_ec", "config_path+override"}
  TargetSets = {"f3", "f4", "f5", "f3f4", "f4f3", "f5f4", "f4f5", "f3f5", "f5f3", "f4f4", "f4af4", "dir", "stdin", "stdinpath"}
INVARIANT Emit
INVARIANT DesignRefines
CHECK_DEADLOCK FALSE
