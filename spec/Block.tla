-------------------------------- MODULE Block --------------------------------
(***************************************************************************)
(* Statement-level properties: ignore directives (C08), ranges (C09).       *)
(*                                                                          *)
(* The block loop of the formatter (src/formatters/block.rs:508-600,        *)
(* context.rs:49-123) as the README describes it: statements of a block are  *)
(* visited in order; a `stylua: ignore start` / `end` comment in front of a  *)
(* statement toggles the block-scoped `disabled` flag BEFORE the statement   *)
(* is looked at; a statement is skipped when the flag is set or when its own *)
(* leading comments contain `stylua: ignore`; the flag does not leave the    *)
(* block.  Table fields behave like the statements of their table.           *)
(*                                                                          *)
(* `recs` is the preorder sequence of statement facts recorded by the        *)
(* harness (harness/src/stmts.rs): structural path, byte span, directive     *)
(* lines, and byte-equality facts between input and output slices.  This     *)
(* module decides which statements were supposed to be verbatim.             *)
(***************************************************************************)
EXTENDS Naturals, Sequences, FiniteSets

Has(r, f) == f \in DOMAIN r
IsPrefixPath(p, q) == Len(p) <= Len(q) /\ \A k \in 1..Len(p) : p[k] = q[k]
ProperPrefix(p, q) == Len(p) < Len(q) /\ IsPrefixPath(p, q)
Parent(p) == [k \in 1..(Len(p) - 1) |-> p[k]]
SetMax(S) == CHOOSE x \in S : \A y \in S : y <= x

RECURSIVE ToggleSeq(_, _, _)
ToggleSeq(d, dirs, k) ==
  IF k > Len(dirs) THEN d
  ELSE ToggleSeq(IF dirs[k] = "start" THEN TRUE ELSE IF dirs[k] = "end" THEN FALSE ELSE d, dirs, k + 1)

(* the `disabled` flag while statement i is being looked at (one loop iteration = one step of the fold) *)
RECURSIVE DisabledAt(_, _)
DisabledAt(recs, i) ==
  LET prevs  == {j \in 1..(i - 1) : Parent(recs[j].path) = Parent(recs[i].path)}
      before == IF prevs = {} THEN FALSE ELSE DisabledAt(recs, SetMax(prevs))
  IN  ToggleSeq(before, recs[i].dirs, 1)

OwnSkip(recs, i) == DisabledAt(recs, i) \/ \E k \in DOMAIN recs[i].dirs : recs[i].dirs[k] = "ignore"
Ignored(recs, i) == \E j \in 1..i : IsPrefixPath(recs[j].path, recs[i].path) /\ OwnSkip(recs, j)
TopIgnored(recs, i) == OwnSkip(recs, i) /\ ~\E j \in 1..(i - 1) : ProperPrefix(recs[j].path, recs[i].path) /\ OwnSkip(recs, j)
HasIgnoredDescendant(recs, i) == \E j \in (i + 1)..Len(recs) : ProperPrefix(recs[i].path, recs[j].path) /\ OwnSkip(recs, j)

(* ---- ranges: three-valued, because code and documentation differ by one on the end bound ---- *)
InRange(r, rg) ==
  LET startOk == ~rg.has_start \/ r.start >= rg.start
      endCode == ~rg.has_end \/ r.end <= rg.end            \* exclusive end offset compared (context.rs:119)
      endDoc  == ~rg.has_end \/ r.end <= rg.end + 1        \* documented: both bounds inclusive
  IN  IF startOk /\ endCode THEN "inside" ELSE IF startOk /\ endDoc THEN "boundary" ELSE "outside"

MayFormat(recs, i, rg) == InRange(recs[i], rg) # "outside"
HasFormattableDescendant(recs, i, rg) ==
  \E j \in (i + 1)..Len(recs) : ProperPrefix(recs[i].path, recs[j].path) /\ MayFormat(recs, j, rg)
HasInsideAncestor(recs, i, rg) ==
  \E j \in 1..(i - 1) : ProperPrefix(recs[j].path, recs[i].path) /\ InRange(recs[j], rg) # "outside"

(* ---- verdicts ---- *)
(* an ignored statement is reproduced byte for byte at the corresponding position; this clause also holds *)
(* while requires are being sorted: a group holding an ignored statement is left alone, and sorting the    *)
(* other groups moves no statement across an ignored one                                                   *)
IgnoredVerbatimFails(recs) ==
  UNION { (IF TopIgnored(recs, i) /\ ~(recs[i].found /\ Has(recs[i], "same_text") /\ recs[i].same_text)
           THEN {[p |-> "C08", w |-> IF ~recs[i].found THEN "ignored_lost"
                                     ELSE IF recs[i].same_text_nosemi THEN "ignored_semicolon" ELSE "ignored_changed",
                  i |-> i]} ELSE {})
        : i \in DOMAIN recs }
(* ... and everything else is formatted as it would be without the directive (compared by position, so *)
(* only judged with require sorting off: a directive legitimately changes which groups are sorted)     *)
ElsewhereFails(recs) ==
  UNION { (IF ~Ignored(recs, i) /\ ~HasIgnoredDescendant(recs, i) /\ Has(recs[i], "same_as_neutral") /\ ~recs[i].same_as_neutral
           THEN {[p |-> "C08", w |-> "not_formatted_elsewhere", i |-> i]} ELSE {})
        : i \in DOMAIN recs }
IgnoreFails(recs) == IgnoredVerbatimFails(recs) \cup ElsewhereFails(recs)

RangeFails(recs, rg, affix, identity) ==
  LET stmtIdx == {i \in DOMAIN recs : recs[i].kind # "field"}
      cand    == {i \in stmtIdx : MayFormat(recs, i, rg) /\ ~Ignored(recs, i)}
  IN
  UNION { (IF ~Ignored(recs, i) /\ InRange(recs[i], rg) = "outside" /\ ~HasFormattableDescendant(recs, i, rg)
              /\ ~(recs[i].found /\ Has(recs[i], "same_text") /\ recs[i].same_text)
           THEN {[p |-> "C09", w |-> IF ~recs[i].found THEN "outside_lost"
                                     ELSE IF recs[i].same_text_nosemi THEN "outside_semicolon" ELSE "outside_changed",
                  i |-> i]} ELSE {}) \cup
          (IF ~Ignored(recs, i) /\ InRange(recs[i], rg) = "inside" /\ ~HasInsideAncestor(recs, i, rg)
              /\ Has(recs[i], "same_as_whole") /\ ~recs[i].same_as_whole
           THEN {[p |-> "C09", w |-> "inside_differs_from_whole_file", i |-> i]} ELSE {})
        : i \in stmtIdx } \cup
  \* no statement in the range: nothing changes, except that an end-of-file token lying in the range has
  \* its own leading comments / blank lines formatted
  (IF cand = {} THEN (IF identity \/ (Has(rg, "eof_in") /\ rg.eof_in /\ rg.body_same) THEN {}
                      ELSE {[p |-> "C09", w |-> "nothing_in_range_but_changed", i |-> 0]})
   ELSE LET first == CHOOSE i \in cand : \A j \in cand : i <= j
            last  == CHOOSE i \in cand : \A j \in cand : j <= i \/ ProperPrefix(recs[i].path, recs[j].path)
            aff(i) == CHOOSE a \in {affix[k] : k \in DOMAIN affix} : a.path = recs[i].path
        IN (IF (\E k \in DOMAIN affix : affix[k].path = recs[first].path) /\ ~aff(first).prefix_same
            THEN {[p |-> "C09", w |-> "prefix_changed", i |-> first]} ELSE {}) \cup
           (IF (\E k \in DOMAIN affix : affix[k].path = recs[last].path) /\ ~aff(last).suffix_same
            THEN {[p |-> "C09", w |-> "suffix_changed", i |-> last]} ELSE {}))
=============================================================================
