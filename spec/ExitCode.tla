------------------------------ MODULE ExitCode ------------------------------
(***************************************************************************)
(* C19: the exit status does not depend on the interleaving.                *)
(* Fine-grained model of the accesses to the process exit status: every      *)
(* atomic operation is its own step.  The operation lists are DATA,          *)
(* extracted from a free run of the code under check (what the main thread   *)
(* does when the walker reports an error; what the output thread does when   *)
(* it receives each kind of result), so the model instance describes the     *)
(* current main.rs, including a regression to a non-atomic load;store.       *)
(*   Main  : sequence of operations of the main thread                       *)
(*   Res   : sequence of results, each [file, ops]                           *)
(* The output thread receives the results in ANY order (workers finish in    *)
(* any order) and performs each result's operations one at a time; the main  *)
(* thread's operations interleave with them.                                 *)
(***************************************************************************)
EXTENDS Integers, Sequences, FiniteSets

CONSTANTS Main, Res, Expected

VARIABLES code, tmp, mpc, pend, cur, cpc, hist
xvars == <<code, tmp, mpc, pend, cur, cpc, hist>>

Max2(a, b) == IF a > b THEN a ELSE b
Apply(op, c, t) ==   \* <<new code, new tmp>>
  CASE op.op = "store" -> <<op.arg, t>>
    [] op.op = "fetch_max" -> <<Max2(c, op.arg), t>>
    [] op.op = "load" -> <<c, c>>
    [] op.op = "compare_exchange" -> <<IF c = op.expected THEN op.arg ELSE c, t>>
    [] op.op = "swap" -> <<op.arg, t>>
    [] op.op = "fetch_or" -> <<IF c = 0 THEN op.arg ELSE IF op.arg = 0 THEN c ELSE Max2(c, op.arg), t>>
    [] OTHER -> <<c, t>>

XInit == code = 0 /\ tmp = 0 /\ mpc = 1 /\ pend = DOMAIN Res /\ cur = 0 /\ cpc = 1 /\ hist = <<>>

MainOp ==
  /\ mpc <= Len(Main)
  /\ LET r == Apply(Main[mpc], code, tmp) IN code' = r[1] /\ tmp' = r[2]
  /\ mpc' = mpc + 1 /\ hist' = Append(hist, "main:EXIT_CODE." \o Main[mpc].op)
  /\ UNCHANGED <<pend, cur, cpc>>

Recv(r) ==
  /\ cur = 0 /\ r \in pend
  /\ pend' = pend \ {r}
  /\ hist' = hist \o <<"worker[" \o Res[r].file \o "]:start", "out:recv">>
  /\ IF Res[r].ops = <<>> THEN cur' = 0 /\ cpc' = 1 ELSE cur' = r /\ cpc' = 1
  /\ UNCHANGED <<code, tmp, mpc>>

OutOp ==
  /\ cur # 0
  /\ LET op == Res[cur].ops[cpc]  r == Apply(op, code, tmp) IN
       /\ code' = r[1] /\ tmp' = r[2]
       /\ hist' = Append(hist, "out:EXIT_CODE." \o op.op)
  /\ IF cpc = Len(Res[cur].ops) THEN cur' = 0 /\ cpc' = 1 ELSE cur' = cur /\ cpc' = cpc + 1
  /\ UNCHANGED <<mpc, pend>>

XNext == MainOp \/ OutOp \/ \E r \in DOMAIN Res : Recv(r)
XSpec == XInit /\ [][XNext]_xvars /\ WF_xvars(XNext)

Done == mpc > Len(Main) /\ pend = {} /\ cur = 0

(* the property, at design level: whatever the interleaving, the final status is the expected one *)
StatusTruthful == Done => code = Expected
(* and every run terminates *)
Terminates == <>Done
=============================================================================
