SPECIFICATION Spec
CONSTANTS
  Kinds = {"call", "call2", "tbl", "named", "calltbl", "fn", "callfn", "par", "not", "binl", "binr", "idx", "method", "mixed"}
  MaxDepth = 26
INVARIANT Emit
CHECK_DEADLOCK FALSE
