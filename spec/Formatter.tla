------------------------------ MODULE Formatter ------------------------------
(***************************************************************************)
(* Property layer for the library: format_code as a small state machine     *)
(*     Render -> Format -> Reparse -> Reformat   (per configuration variant) *)
(* whose post-states are ANY observation satisfying the listed properties.  *)
(* The observation records are what the replay harness logs after each      *)
(* action (harness/src/libcase.rs).  Each property is a predicate over the  *)
(* rendered document and the observation; Trace_Lib evaluates all of them   *)
(* at every step of a recorded trace.                                       *)
(***************************************************************************)
EXTENDS LuaSyntax, TLC

VARIABLES pc, doc, fmt, rep, ref
fvars == <<pc, doc, fmt, rep, ref>>

None == [ev |-> "none"]

FInit == pc = "idle" /\ doc = None /\ fmt = None /\ rep = None /\ ref = None

(* ---- actions: the parameter is the logged observation ---- *)
Render(d) ==
  /\ doc' = d /\ pc' = "rendered" /\ fmt' = None /\ rep' = None /\ ref' = None

Format(o) ==
  /\ pc \in {"rendered", "formatted", "reparsed", "reformatted", "verified"}   \* next variant of the same doc
  /\ doc # None /\ o.id = doc.id
  /\ fmt' = o /\ pc' = "formatted" /\ rep' = None /\ ref' = None /\ UNCHANGED doc

Reparse(o) ==
  /\ pc = "formatted" /\ fmt.outcome = "ok" /\ o.id = doc.id /\ o.variant = fmt.variant
  /\ rep' = o /\ pc' = "reparsed" /\ UNCHANGED <<doc, fmt, ref>>

Reformat(o) ==
  /\ pc = "reparsed" /\ o.id = doc.id /\ o.variant = fmt.variant
  /\ ref' = o /\ pc' = "reformatted" /\ UNCHANGED <<doc, fmt, rep>>

Verify(o) ==
  /\ pc \in {"reparsed", "reformatted"} /\ o.id = doc.id
  /\ pc' = "verified" /\ UNCHANGED <<doc, fmt, rep, ref>>

(* ---- properties (predicates over the state AFTER the action) ---- *)
Has(r, f) == f \in DOMAIN r

\* C07: total.  An outcome other than ok / parse_error (panic, error, crash, timeout) is a failure;
\* ok exactly when the input parses (decided by an independent parse of the input).
\* observation bound, not a specification property: thread CPU time proportional to the input size
\* (2 s + 2 ms per input byte; the corpus stays below 5% of it, a 2^depth heuristic crosses it at depth ~ 20)
CpuBoundMs(len) == 2000 + 2 * len
Total(d, f) ==
  /\ f.outcome \in {"ok", "parse_error"}
  /\ (f.outcome = "ok") <=> (f.in_parse = "ok")
  /\ f.cpu_ms <= CpuBoundMs(f.len)

\* C01: the output parses again
Valid(r) == r.ok

\* C02 (+ C05 GroupingKept): same meaning.  Small cases ship whole trees and TLC normalises
\* both; corpus-sized cases ship digests of the harness' mirror of Meaning.
MeaningKept(r) ==
  IF Has(r, "in_tree") THEN SameMeaning(r.in_tree, r.out_tree)
  ELSE IF Has(r, "meaning_in_digest") THEN r.meaning_in_digest = r.meaning_out_digest
  ELSE TRUE
\* cross-check of the Rust mirror against this module's Meaning (tool error if they disagree)
MirrorAgrees(r) ==
  (Has(r, "in_tree") /\ Has(r, "meaning_in_digest")) =>
     (SameMeaning(r.in_tree, r.out_tree) <=> (r.meaning_in_digest = r.meaning_out_digest))

\* C02/C03 second oracle: code-token normal form unchanged
TokensKept(f) == f.nf_same

\* C03: comment census kept
CensusKept(f) == f.census_lost = <<>> /\ f.census_gained = <<>>

\* C06: fixpoint
Fixpoint(x) == x.outcome = "ok" /\ x.equal

(* beyond the listed properties: format_code is a function of (text, configuration) - repeating the first Format *)
(* action of a case after every other configuration has been formatted on the same thread gives the same outcome *)
(* (no state is kept between calls; the command-line counterpart is C19's independence of the worker pick-up order) *)
Deterministic(f) == Has(f, "again_same") => f.again_same
=============================================================================
