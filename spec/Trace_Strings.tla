---------------------------- MODULE Trace_Strings ----------------------------
(***************************************************************************)
(* Trace validation for literal cases (C04, quote part of C11, plus C01/C07 *)
(* on the same executions).  One event = one Literal action: a literal was   *)
(* placed in a position and formatted under all quote styles x line endings; *)
(* the event carries the distinct observed outputs.  TLC decodes the input   *)
(* and every output body with Strings!Decode and judges.                     *)
(***************************************************************************)
EXTENDS Strings, Json, IOUtils, TLC, TLCExt

Rec == ndJsonDeserialize(IOEnv.TRACE)
VARIABLES l, nlit
tvars == <<l, nlit>>

Has(r, f) == f \in DOMAIN r
V(prop, what) == [p |-> prop, w |-> what]
SeqToSet(s) == {s[i] : i \in DOMAIN s}

StrVariantFails(e, v, long) ==
  IF v.outcome # "ok" THEN {V("C07", v.outcome)}
  ELSE
   (IF ~v.reparse_ok THEN {V("C01", "reparse")} ELSE {}) \cup
   (IF v.n_lits # 1 \/ ~Has(v, "body_out") THEN {V("C04", "literal_count")}
    ELSE IF ~v.alphabet_ok THEN {V("C04", "alien_char")}
    ELSE
      LET din  == IF long THEN DecodeLong(e.body) ELSE Decode(e.body)
          dout == IF v.q_out = "LONG" THEN DecodeLong(v.body_out) ELSE Decode(v.body_out)
      IN
      (IF dout # din THEN {V("C04", "value")} ELSE {}) \cup
      (IF v.rust_out # dout THEN {V("TOOL", "decoder_out")} ELSE {}) \cup
      (IF ~long /\ v.q_out \in {"SQ", "DQ"}
       THEN UNION {
              (IF v.q_out # RuleQuote(c.style, Count(v.body_out, "SQ"), Count(v.body_out, "DQ"))
               THEN {V("C11", "quote")} ELSE {}) \cup
              (IF Has(e.pred, c.style) /\ (e.pred[c.style].q # v.q_out \/ e.pred[c.style].body # v.body_out)
               THEN {V("DRIFT", "strings")} ELSE {})
              : c \in SeqToSet(v.cfgs)}
       ELSE {}) \cup
      (IF long /\ v.q_out # "LONG" THEN {V("DRIFT", "long_requoted")} ELSE {}))

NumVariantFails(e, v) ==
  IF v.outcome # "ok" THEN {V("C07", v.outcome)}
  ELSE (IF ~v.reparse_ok THEN {V("C01", "reparse")} ELSE {}) \cup
       (IF ~Has(v, "val_out") THEN {V("C04", "literal_count")}
        ELSE IF v.val_out # e.val_in THEN {V("C04", "number")} ELSE {})

LitFails(e) ==
  IF ~e.lexer_ok THEN {}
  ELSE IF e.kind = "numlit" THEN UNION {NumVariantFails(e, v) : v \in SeqToSet(e.variants)}
  ELSE LET long == e.kind = "longlit"
           din == IF long THEN DecodeLong(e.body) ELSE Decode(e.body) IN
       (IF e.rust_in # din THEN {V("TOOL", "decoder_in")} ELSE {}) \cup
       UNION {StrVariantFails(e, v, long) : v \in SeqToSet(e.variants)}

Report(e, fails) ==
  fails = {} \/ PrintT(<<"VERDICT", ToJson([idx |-> e.idx, id |-> e.id, variant |-> 0, pos |-> IF Has(e, "pos") THEN e.pos ELSE "", fails |-> fails])>>)

(* domain bookkeeping: where the specification's Valid and the real lexer disagree (counted, not an error) *)
DomainNote(e) ==
  (e.kind # "strlit" \/ e.valid_spec = e.lexer_ok) \/ PrintT(<<"DOMAIN", ToJson([idx |-> e.idx, spec |-> e.valid_spec, lexer |-> e.lexer_ok])>>)

TraceLit ==
  /\ l <= Len(Rec) /\ Rec[l].ev = "Lit" /\ l' = l + 1 /\ nlit' = nlit + 1
  /\ Report(Rec[l], LitFails(Rec[l])) /\ DomainNote(Rec[l])
TraceOther ==
  /\ l <= Len(Rec) /\ Rec[l].ev \in {"Crash", "Timeout", "ToolError"} /\ l' = l + 1 /\ UNCHANGED nlit
  /\ IF Rec[l].ev = "ToolError" THEN PrintT(<<"TOOLERROR", ToJson(Rec[l])>>)
     ELSE Report([idx |-> Rec[l].idx, id |-> "?"], {V("C07", IF Rec[l].ev = "Crash" THEN "crash" ELSE "timeout")})

TraceInit == l = 1 /\ nlit = 0
TraceNext == TraceLit \/ TraceOther
TraceSpec == TraceInit /\ [][TraceNext]_tvars
TraceAccepted ==
  LET d == TLCGet("stats").diameter IN
  IF d - 1 = Len(Rec) THEN PrintT(<<"ACCEPTED", Len(Rec)>>)
  ELSE PrintT(<<"REJECTED at event", d, IF d <= Len(Rec) THEN ToJson(Rec[d]) ELSE "?">>) /\ FALSE
=============================================================================
