SPECIFICATION Spec
CONSTANTS
  Pats = {"name:b.lua", "dir:vendor", "ext:luau", "anch:a.lua", "!name:v.lua", "dir:deep", "name:v.lua"}
  ArgSets = {"dot", "src", "a", "v", "w", "notes", "hidden", "dot+a", "a+a", "src+b", "src+vendor", "src+notes", "notes+src", "dot+notes", "notes+dot", "a+upa", "dot+upa", "srca+upa", "upa+srca"}
  MaxPats = 2
  IgNames = {"stylua", "ignore"}
  GlobSets = {"none", "lua", "luau", "txt", "lua-b", "-b+lua", "-vendor", "lua-vendor", "under-src"}
  FlagSets = {"none", "respect", "hidden"}
INVARIANT Emit
CHECK_DEADLOCK FALSE
