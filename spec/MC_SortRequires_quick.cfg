SPECIFICATION Spec
CONSTANTS
  ItemCodes = {"Ra", "RB", "Rb", "Ga", "O", "M"}
  MaxLen = 3
  MaxDev = 2
  DevTypes = {"sep", "dir", "semi", "cmt", "mline", "range"}
INVARIANT Emit
CHECK_DEADLOCK FALSE
