SPECIFICATION Spec
CONSTANTS
  Classes = {"formatted", "unformatted", "unparseable", "missing", "unreadable", "readonly", "verifyfail", "crash", "nonutf8", "crlf", "empty", "nonl"}
  Locs = {"arg", "dir", "both"}
  MaxFiles = 2
  Modes = {"check", "write"}
  Formats = {"standard", "unified", "json", "summary"}
  Threads = {1, 4}
  VerifyOpts = {TRUE, FALSE}
  RangeOpts = {TRUE, FALSE}
INVARIANT Emit
CHECK_DEADLOCK FALSE
