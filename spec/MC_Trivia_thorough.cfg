SPECIFICATION Spec
CONSTANTS
  Kinds = {"line", "block", "long", "ownline", "ownlinec"}
  MaxComments = 2
  Groups = {"stmt", "call", "expr", "block", "func", "table", "luau"}
INVARIANT Emit
CHECK_DEADLOCK FALSE
