----------------------------- MODULE MC_Strings -----------------------------
(***************************************************************************)
(* Generator + design-level check for string literals (C04, C11 quotes).    *)
(* Bodies are built one symbol per step (Append), so every body up to       *)
(* MaxLen over the alphabet Alpha is one state; each is printed for both     *)
(* quote kinds with the specification's decoding, its validity verdict and   *)
(* the Impl model's prediction for every quote style.  RewriteSafe is the    *)
(* design-level obligation, checked as an invariant on every state.          *)
(***************************************************************************)
EXTENDS Strings, TLC, Json

CONSTANTS Alpha, MaxLen
VARIABLE body
(* complete multi-symbol escapes are out of reach of MaxLen: they are seeded, each alone and between quote / *)
(* backslash / unnecessary-escape neighbours                                                                   *)
LongEscapes == { <<"BS", "u", "LB", "a", "1", "RB">>,            \* \u{a1}  (two bytes)
                 <<"BS", "u", "LB", "1", "0", "0", "0", "0", "RB">>,   \* \u{10000} (four bytes)
                 <<"BS", "x", "1", "a">>, <<"BS", "0", "1", "9">>, <<"BS", "1", "9", "9">>,
                 <<"BS", "z", "SP", "SP">> }
Around == {<<>>, <<"SQ">>, <<"DQ">>, <<"DQ", "DQ">>, <<"BS", "BS">>, <<"BS", "q">>, <<"q">>}
EscBodies == {a \o e \o b : a \in Around, e \in LongEscapes, b \in Around}
Init == body \in {<<>>} \cup EscBodies
AppendSym == Len(body) < MaxLen /\ \E c \in Alpha : body' = Append(body, c)
Spec == Init /\ [][AppendSym]_body

Case(q) ==
  [ kind |-> "strlit", q |-> q, body |-> body, valid_spec |-> Valid(q, body),
    dec |-> IF Valid(q, body) THEN Decode(body) ELSE <<>>,
    pred |-> [st \in Styles |-> ImplRewrite(st, body)] ]

Emit == PrintT(<<"CASE", ToJson(Case("DQ"))>>) /\ PrintT(<<"CASE", ToJson(Case("SQ"))>>)

(* design-level obligation; a counterexample is a lead for the replay (printed, not fatal) *)
DesignSafe == (RewriteSafe("DQ", body) /\ RewriteSafe("SQ", body)) \/ PrintT(<<"DESIGN", ToJson([body |-> body])>>)
=============================================================================
