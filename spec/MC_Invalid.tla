----------------------------- MODULE MC_Invalid -----------------------------
(***************************************************************************)
(* Generator for C07's other half: text that does NOT parse never comes     *)
(* back as a success.  A template of the MC_Trivia catalogue gets one       *)
(* unbalanced `(` (or a stray `end`) at an inter-token slot, and the call is *)
(* made with no range, an empty range, an inverted range, a range past the   *)
(* end, and a range over the whole text.  The harness parses the text with   *)
(* the real parser; cases that happen to parse are ordinary cases.           *)
(***************************************************************************)
EXTENDS MC_Trivia

CONSTANTS Junk, RangeCodes
VARIABLES rg
ivars == <<tmpl, comments, rg>>

RangeOf(c) == CASE c = "none"     -> [none |-> TRUE]
                [] c = "empty0"   -> [start |-> 0, end |-> 0]
                [] c = "empty5"   -> [start |-> 5, end |-> 5]
                [] c = "inverted" -> [start |-> 10, end |-> 2]
                [] c = "beyond"   -> [start |-> 100000, end |-> 500]
                [] c = "whole"    -> [start |-> 0, end |-> 100000]

IInit == tmpl \in {c \in Catalogue : c.group \in Groups} /\ comments = <<>> /\ rg \in RangeCodes
Break ==
  /\ comments = <<>>
  /\ \E slot \in 0..NTok(tmpl.tree), j \in Junk :
        comments' = <<[slot |-> slot, kind |-> "raw", text |-> j]>>
  /\ UNCHANGED <<tmpl, rg>>
ISpec == IInit /\ [][Break]_ivars

ICase == [ tree |-> tmpl.tree,
           layout |-> [comments |-> comments],
           cfg |-> [syntax |-> tmpl.syntax],
           meta |-> [src |-> "Invalid", tmpl |-> tmpl.name, group |-> tmpl.group, rg |-> rg, comments |-> comments] ]
         @@ (IF rg = "none" THEN <<>> ELSE [range |-> RangeOf(rg)])
IEmit == comments # <<>> => PrintT(<<"CASE", ToJson(ICase)>>)
=============================================================================
