---------------------------- MODULE MC_Selection ----------------------------
(* Generator for C16: ignore-file contents x argument lists x flags. *)
EXTENDS Selection, TLC, Json

CONSTANTS Pats, ArgSets, MaxPats, FlagSets, GlobSets, IgNames
VARIABLES sc, phase
vars == <<sc, phase>>

P(k, v, neg) == [k |-> k, v |-> v, neg |-> neg]
PatOf(c) ==
  CASE c = "name:b.lua" -> P("name", "b.lua", FALSE) [] c = "name:v.lua" -> P("name", "v.lua", FALSE)
    [] c = "dir:vendor" -> P("dir", "vendor", FALSE) [] c = "dir:deep" -> P("dir", "deep", FALSE)
    [] c = "ext:luau" -> P("ext", "luau", FALSE) [] c = "ext:lua" -> P("ext", "lua", FALSE)
    [] c = "anch:a.lua" -> P("anch", "a.lua", FALSE) [] c = "anch:b.lua" -> P("anch", "b.lua", FALSE)
    [] c = "!name:v.lua" -> P("name", "v.lua", TRUE) [] c = "!name:b.lua" -> P("name", "b.lua", TRUE)
    [] c = "!ext:lua" -> P("ext", "lua", TRUE)

A(kind, path, dir) == [kind |-> kind, path |-> path, dir |-> dir]
AF(path, dir, file) == [kind |-> "file", path |-> path, dir |-> dir, file |-> file]     \* a spelling through `..`
UpSets == {"a+upa", "srca+upa", "upa+srca", "dot+upa"}
ArgsOf(s) ==
  CASE s = "dot" -> <<A("dir", ".", <<>>)>>
    [] s = "src" -> <<A("dir", "src", <<"src">>)>>
    [] s = "vendor" -> <<A("dir", "src/vendor", <<"src", "vendor">>)>>
    [] s = "a" -> <<A("file", "a.lua", <<>>)>>
    [] s = "v" -> <<A("file", "src/vendor/v.lua", <<"src", "vendor">>)>>
    [] s = "w" -> <<A("file", "src/vendor/deep/w.lua", <<"src", "vendor", "deep">>)>>
    [] s = "notes" -> <<A("file", "src/notes.txt", <<"src">>)>>
    [] s = "hidden" -> <<A("file", ".hidden.lua", <<>>)>>
    [] s = "dot+a" -> <<A("dir", ".", <<>>), A("file", "a.lua", <<>>)>>
    [] s = "a+a" -> <<A("file", "a.lua", <<>>), A("file", "./a.lua", <<>>)>>
    [] s = "src+b" -> <<A("dir", "src", <<"src">>), A("file", "src/b.lua", <<"src">>)>>
    [] s = "src+vendor" -> <<A("dir", "src", <<"src">>), A("dir", "src/vendor", <<"src", "vendor">>)>>
    \* a file the default glob does not match, named explicitly next to the directory that holds it (both orders)
    [] s = "src+notes" -> <<A("dir", "src", <<"src">>), A("file", "src/notes.txt", <<"src">>)>>
    [] s = "dot+notes" -> <<A("dir", ".", <<>>), A("file", "src/notes.txt", <<"src">>)>>
    [] s = "notes+dot" -> <<A("file", "src/notes.txt", <<"src">>), A("dir", ".", <<>>)>>
    [] s = "notes+src" -> <<A("file", "src/notes.txt", <<"src">>), A("dir", "src", <<"src">>)>>
    \* one file under two spellings, one of them through `..` (processed once) ...
    [] s = "a+upa" -> <<A("file", "a.lua", <<>>), AF("src/../a.lua", <<>>, "a.lua")>>
    [] s = "dot+upa" -> <<A("dir", ".", <<>>), AF("src/../a.lua", <<>>, "a.lua")>>
    \* ... and two different files whose spellings have the same named components (both processed)
    [] s = "srca+upa" -> <<A("file", "src/a.lua", <<"src">>), AF("src/../a.lua", <<>>, "a.lua")>>
    [] s = "upa+srca" -> <<AF("src/../a.lua", <<>>, "a.lua"), A("file", "src/a.lua", <<"src">>)>>
    [] s = "lib+src" -> <<A("dir", "lib", <<"lib">>), A("dir", "src", <<"src">>)>>

(* -g lists (a plain pattern selects, a negated one excludes) *)
GlobsOf(g) ==
  CASE g = "none" -> <<>>
    [] g = "lua" -> <<P("ext", "lua", FALSE)>>
    [] g = "luau" -> <<P("ext", "luau", FALSE)>>
    [] g = "txt" -> <<P("ext", "txt", FALSE)>>
    [] g = "lua-b" -> <<P("ext", "lua", FALSE), P("name", "b.lua", TRUE)>>
    [] g = "-b+lua" -> <<P("name", "b.lua", TRUE), P("ext", "lua", FALSE)>>      \* the later pattern wins
    [] g = "-vendor" -> <<P("dir", "vendor", TRUE)>>                              \* only an exclusion: everything else is selected
    [] g = "lua-vendor" -> <<P("ext", "lua", FALSE), P("dir", "vendor", TRUE)>>
    [] g = "under-src" -> <<P("under", "src", FALSE)>>

PatSeqs == {<<>>} \cup {<<PatOf(a)>> : a \in Pats} \cup (IF MaxPats >= 2 THEN {<<PatOf(a), PatOf(b)>> : a \in Pats, b \in Pats} ELSE {})
Flags(fs) == CASE fs = "none" -> [respect |-> FALSE, allow_hidden |-> FALSE]
               [] fs = "respect" -> [respect |-> TRUE, allow_hidden |-> FALSE]
               [] fs = "hidden" -> [respect |-> FALSE, allow_hidden |-> TRUE]
               [] fs = "both" -> [respect |-> TRUE, allow_hidden |-> TRUE]

Init == phase = "init" /\ sc = [none |-> TRUE]
Build ==
  /\ phase = "init"
  /\ \E r \in PatSeqs, s \in PatSeqs, a \in ArgSets, fl \in FlagSets, g \in GlobSets, n \in IgNames :
        \* the root ignore file may also be called `.ignore` (CHANGELOG 0.20: treated "as if" it were a .styluaignore)
        /\ (n # "stylua" => (g = "none" /\ Len(r) = 1 /\ s = <<>>))
        \* `..` spellings are about the identity of files, not about ignore files: explicit files under
        \* --respect-ignores are judged with the plain spellings above
        /\ (a \in UpSets => ~Flags(fl).respect)
        /\ (r = <<>> \/ s = <<>> \/ (Len(r) = 1 /\ Len(s) = 1))          \* budget: at most two patterns in total
        /\ (g # "none" => Len(r) + Len(s) <= 1)                            \* ... one next to a glob list
        /\ sc' = [ig_root |-> r, ig_src |-> s, args |-> ArgsOf(a), argset |-> a, globs |-> GlobsOf(g), globset |-> g, igname |-> n,
                  respect |-> Flags(fl).respect, allow_hidden |-> Flags(fl).allow_hidden]
  /\ phase' = "done"
Spec == Init /\ [][Build]_vars

(* the same explicit file under two spellings is one file *)
(* The property speaks of .styluaignore only.  That an `.ignore` file counts "as if" it were one is the CHANGELOG's *)
(* wording for the directory walk; for a file named explicitly under --respect-ignores neither text settles it,     *)
(* so there both outcomes are accepted.                                                                              *)
ExplicitFiles == {f.path : f \in {g \in Universe : \E i \in DOMAIN sc.args :
                                   sc.args[i].kind = "file" /\ (sc.args[i].path \in {g.path, "./" \o g.path} \/ Target(sc.args[i]) = g.path)}}
Case == [sc |-> sc, selected |-> SelectedSet(sc) \ (IF sc.igname # "stylua" /\ sc.respect THEN ExplicitFiles ELSE {}),
         maybe |-> MaybeSet(sc) \cup (IF sc.igname # "stylua" /\ sc.respect THEN ExplicitFiles ELSE {}),
         universe |-> {f.path : f \in Universe},
         ignored |-> {f.path : f \in {g \in Universe : Ignored(sc, g)}}]
Emit == phase = "done" => PrintT(<<"CASE", ToJson(Case)>>)
=============================================================================
