------------------------------ MODULE Trace_Cli ------------------------------
(***************************************************************************)
(* Trace validation for the command-line properties: every recorded run is  *)
(* replayed through Cli's actions (Start, hook events, Final); the traced    *)
(* atomic operations must agree with the model value of the exit status;    *)
(* the final observation is judged.  Verdicts, not rejection.               *)
(***************************************************************************)
EXTENDS Cli, Json, IOUtils, TLC, TLCExt

Df == INSTANCE Diff

Rec == ndJsonDeserialize(IOEnv.TRACE)
VARIABLE l
tvars == <<l, phase, sc, code, written, dispatched, nrecv, exited>>

V(prop, what) == [p |-> prop, w |-> what]
Report(e, fails) ==
  fails = {} \/ PrintT(<<"VERDICT", ToJson([idx |-> e.idx, id |-> IF Has(e, "id") THEN e.id ELSE "?", variant |-> 0, fails |-> fails])>>)

Next1 == l <= Len(Rec) /\ l' = l + 1
E == Rec[l]

TraceStart == /\ Next1 /\ E.ev = "Start" /\ Start(E.meta)

IsAtomic(h) == h.hev \in {"EXIT_CODE.load", "EXIT_CODE.store", "EXIT_CODE.fetch_max", "EXIT_CODE.compare_exchange",
                          "EXIT_CODE.swap", "EXIT_CODE.fetch_add", "EXIT_CODE.fetch_or", "EXIT_CODE.fetch_update"}
TraceHook ==
  /\ Next1 /\ E.ev = "Hook"
  /\ CASE E.hev = "dispatch" -> Dispatch(E.path)
       [] E.hev = "fs_write" -> FsWrite(E.path)
       [] E.hev = "recv" -> OutRecv
       [] E.hev = "exit" -> Exit(E.code)
       [] E.hev = "EXIT_CODE.load" -> Load /\ Report(E, IF E.result # code THEN {V("TOOL", "atomic_model_mismatch")} ELSE {})
       [] E.hev = "EXIT_CODE.store" -> Store(E.arg)
       [] E.hev = "EXIT_CODE.fetch_max" -> FetchMax(E.arg) /\ Report(E, IF E.result # code THEN {V("TOOL", "atomic_model_mismatch")} ELSE {})
       [] E.hev = "EXIT_CODE.compare_exchange" -> CmpXchg(E.expected, E.arg) /\ Report(E, IF E.result # code THEN {V("TOOL", "atomic_model_mismatch")} ELSE {})
       [] IsAtomic(E) -> Other /\ PrintT(<<"NOTE", "unmodelled atomic operation", E.hev>>)
       [] OTHER -> Other

ModeProp(s) == IF s.mode = "check" THEN "C13" ELSE "C14"
Kind(s) == IF Has(s, "kind") THEN s.kind ELSE "files"

(* C15: the configuration applied to each target is one the documented search allows *)
Labels(ms) == {"k" \o ToString(ms[i]) : i \in DOMAIN ms}
ConfigFails(s, fin) ==
  UNION { LET tg == s.targets[k]  want == Labels(s.expect[k]) IN
          IF tg.kind \in {"stdin", "stdinpath"}
          THEN (IF ~Has(fin, "stdout_matches") \/ SeqToSet(fin.stdout_matches) \cap want = {} THEN {"stdin_config"} ELSE {})
          ELSE (IF ~HasObs(fin, tg.path) THEN {"target_missing"}
                ELSE IF SeqToSet(FileObs(fin, tg.path).matches) \cap want = {} THEN {"config_applied"} ELSE {})
        : k \in DOMAIN s.targets } \cup
  (IF fin.exit # 0 THEN {"exit"} ELSE {})

(* C16: exactly the selected files are processed, each once *)
CountIn(sq, x) == Cardinality({i \in DOMAIN sq : sq[i] = x})
SelectFails(s, fin, disp) ==
  LET processed == {o.path : o \in {q \in SeqToSet(fin.files) : q.tag = "cand" /\ ~q.same_bytes}}
      want == SeqToSet(s.selected)
      maybe == IF Has(s, "maybe") THEN SeqToSet(s.maybe) ELSE {}
  IN (IF processed \ (want \cup maybe) # {} THEN {"unselected_processed"} ELSE {}) \cup
     (IF want \ processed # {} THEN {"selected_skipped"} ELSE {}) \cup
     (IF \E i \in DOMAIN disp : CountIn(disp, disp[i]) > 1 THEN {"processed_twice"} ELSE {}) \cup
     (IF \E o \in SeqToSet(fin.files) : o.tag # "cand" /\ ~o.same_bytes THEN {"other_file_modified"} ELSE {}) \cup
     (IF fin.created # <<>> THEN {"file_created"} ELSE {})

(* C17: stdin mode writes the formatted text to stdout and nothing else *)
StdinFails(s, fin) ==
  LET m == IF Has(fin, "stdout_matches") THEN SeqToSet(fin.stdout_matches) ELSE {} IN
  (IF fin.exit # s.expect.exit THEN {"exit"} ELSE {}) \cup
  (CASE s.expect.stdout = "fmt"   -> IF (IF s.c.extra = "range_end" THEN "fmt_range_end" ELSE IF s.c.pathcase = "cfgdir" THEN "fmt_cfgdir" ELSE IF s.c.pathcase = "ecdir" THEN "fmt_ecdir" ELSE "fmt") \notin m THEN {"stdout_not_formatted_text"} ELSE {}
     [] s.expect.stdout = "input" -> IF "input" \notin m THEN {"stdout_not_passthrough"} ELSE {}
     \* (the summary format always prints a header and a footer: there "empty" means that no file is listed)
     [] s.expect.stdout = "empty" -> IF (IF s.c.mode = "check_summary" THEN fin.n_diffs # 0 ELSE fin.stdout_len # 0) THEN {"stdout_not_empty"} ELSE {}
     [] s.expect.stdout = "diff"  -> IF (IF s.c.mode = "check_summary" THEN fin.n_diffs = 0 ELSE fin.stdout_len = 0) THEN {"no_diff_printed"} ELSE {}
     [] OTHER -> {}) \cup
  (IF fin.created # <<>> \/ fin.deleted # <<>> THEN {"file_created"} ELSE {}) \cup
  (IF \E o \in SeqToSet(fin.files) : ~o.same_bytes \/ ~o.same_mtime THEN {"file_modified"} ELSE {}) \cup
  \* the diff printed for stdin input takes the piped text to the library's output, like the diff of a file (C18's oracle)
  (IF Has(fin, "diff") /\ fin.diff.have_new
   THEN LET d == fin.diff IN
        (IF s.c.mode = "check_unified" /\ ~d.same /\ Df!ApplyUnified(d.old, d.hunks) # d.new THEN {"stdin_unified_does_not_reconstruct"} ELSE {}) \cup
        (IF s.c.mode = "check_json" /\ ~d.same /\ Df!ApplyJson(d.old, d.mismatches) # d.new THEN {"stdin_json_does_not_reconstruct"} ELSE {})
   ELSE {})

(* C18: the printed diff reconstructs the formatted file; nothing is printed iff the file is already formatted *)
DiffFails(s, fin) ==
  LET d == fin.diff IN
  IF ~d.have_new THEN {}
  ELSE
   (IF s.fmt = "unified"
    THEN (IF d.same # (d.hunks = <<>>) THEN {"printed_iff_differs"} ELSE {}) \cup
         (IF ~d.same /\ ~Df!UnifiedConsistent(d.old, d.hunks) THEN {"unified_context_mismatch"} ELSE {}) \cup
         (IF ~d.same /\ Df!ApplyUnified(d.old, d.hunks) # d.new THEN {"unified_does_not_reconstruct"} ELSE {})
    ELSE {}) \cup
   (IF s.fmt = "json"
    THEN (IF d.same # (d.mismatches = <<>>) THEN {"printed_iff_differs"} ELSE {}) \cup
         (IF ~d.same /\ Df!ApplyJson(d.old, d.mismatches) # d.new THEN {"json_does_not_reconstruct"} ELSE {}) \cup
         (IF ~d.same /\ ~Df!JsonRangesConsistent(d.mismatches) THEN {"json_range_inconsistent"} ELSE {})
    ELSE {}) \cup
   (IF s.fmt \in {"summary", "standard"}
    THEN (IF d.same # (fin.n_diffs = 0) THEN {"printed_iff_differs"} ELSE {})
    ELSE {}) \cup
   (IF fin.exit # (IF d.same THEN 0 ELSE 1) THEN {"exit"} ELSE {})

(* C20: every carrier of an option value gives the library's output for that configuration;
        a malformed configuration file is rejected with exit status 2 and nothing is modified *)
CarrierFails(s, fin) ==
  IF s.c.kind = "carrier"
  THEN (IF fin.exit # 0 THEN {"exit"} ELSE {}) \cup
       UNION { IF o.tag = "probe" /\ "fmt" \notin SeqToSet(o.matches) THEN {"carrier_output_differs"} ELSE {} : o \in SeqToSet(fin.files) }
  ELSE (IF fin.exit # 2 THEN {"malformed_not_rejected"} ELSE {}) \cup
       (IF \E o \in SeqToSet(fin.files) : ~o.same_bytes THEN {"malformed_but_file_modified"} ELSE {})

TraceFinal ==
  /\ Next1 /\ E.ev = "Final" /\ Final
  /\ CASE Kind(sc) = "files" ->
            LET fs == FinalFails(sc, E, written, exited) IN
            Report(E, {V(ModeProp(sc), w) : w \in fs} \cup {V("C19", w) : w \in fs})
       [] Kind(sc) = "config" -> Report(E, {V("C15", w) : w \in ConfigFails(sc, E)})
       [] Kind(sc) = "stdin" -> Report(E, {V("C17", w) : w \in StdinFails(sc, E)} \cup
                                          {V("C18", w) : w \in StdinFails(sc, E) \cap {"stdin_unified_does_not_reconstruct", "stdin_json_does_not_reconstruct"}} \cup
                                          (IF written # <<>> THEN {V("C17", "fs_write")} ELSE {}))
       [] Kind(sc) = "diff" -> Report(E, {V("C18", w) : w \in DiffFails(sc, E)})
       [] Kind(sc) = "carrier" -> Report(E, {V("C20", w) : w \in CarrierFails(sc, E)})
       [] Kind(sc) = "select" -> Report(E, {V("C16", w) : w \in SelectFails(sc, E, dispatched)})
       [] OTHER -> TRUE

TraceInit == CInit /\ l = 1
TraceNext == TraceStart \/ TraceHook \/ TraceFinal
TraceSpec == TraceInit /\ [][TraceNext]_tvars
TraceAccepted ==
  LET d == TLCGet("stats").diameter IN
  IF d - 1 = Len(Rec) THEN PrintT(<<"ACCEPTED", Len(Rec)>>)
  ELSE PrintT(<<"REJECTED at event", d, IF d <= Len(Rec) THEN ToJson(Rec[d]) ELSE "?">>) /\ FALSE
=============================================================================
