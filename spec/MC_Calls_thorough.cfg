SPECIFICATION Spec
CONSTANTS
  ArgKinds = {"name", "str", "num", "tbl", "tblfn", "fn", "call", "pstr", "ptbl"}
  MaxArgs = 3
  TripleKinds = {"name", "str", "tbl", "tblfn", "fn", "call"}
  Suffixes = {"none", "dot", "idx", "mcall", "call"}
  Positions = {"stmt", "local", "arg", "ret"}
INVARIANT Emit
CHECK_DEADLOCK FALSE
