SPECIFICATION Spec
CONSTANTS
  Ctors = {"par", "opt", "fn", "unionl", "unionr", "interl", "arr", "leadu", "leadi"}
  MaxDepth = 4
  Positions = {"local", "decl"}
INVARIANT Emit
CHECK_DEADLOCK FALSE
