SPECIFICATION Spec
CONSTANTS
  BinOpsG = {"or", "==", "..", "+", "*", "^"}
  UnOpsG = {"-", "not", "#"}
  LeafKindsG = {"call", "vararg", "num"}
  ContextsG = {"local", "local2", "return", "arg", "argfirst", "if", "tpos", "prefix", "prefixm"}
  MaxDev = 2
  MaxPar = 2
  Shapes = {"bb_l", "bb_r", "bu_l", "bu_r", "ub", "uu", "b", "u", "l"}
INVARIANT Emit
INVARIANT NoParensNoChange
CHECK_DEADLOCK FALSE
