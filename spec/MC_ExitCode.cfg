SPECIFICATION XSpec
CONSTANTS
  Main <- MainJ
  Res <- ResJ
  Expected <- ExpectedJ
INVARIANT Emit
INVARIANT DesignNote
PROPERTY Terminates
CHECK_DEADLOCK FALSE
