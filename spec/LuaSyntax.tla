----------------------------- MODULE LuaSyntax -----------------------------
(***************************************************************************)
(* Abstract syntax of Lua/Luau programs as the verification machinery sees *)
(* it, and what a tree MEANS.                                              *)
(*                                                                         *)
(* Every node is a record [k |-> kind, a |-> attribute, c |-> children].   *)
(* The harness projects full_moon ASTs into this shape (harness/src/       *)
(* project.rs) and the generators below build programs in the same shape,  *)
(* so one definition of Meaning serves both sides of every comparison.     *)
(***************************************************************************)
EXTENDS Naturals, Sequences, FiniteSets

N(k, a, c) == [k |-> k, a |-> a, c |-> c]
Leaf(k, a) == [k |-> k, a |-> a, c |-> <<>>]

(* ---------- operators (full_moon precedences) ---------- *)
Prec(o) == CASE o = "or" -> 1
             [] o = "and" -> 2
             [] o \in {"<", ">", "<=", ">=", "~=", "=="} -> 3
             [] o = "|" -> 4
             [] o = "~" -> 5
             [] o = "&" -> 6
             [] o \in {"<<", ">>"} -> 7
             [] o = ".." -> 8
             [] o \in {"+", "-"} -> 9
             [] o \in {"*", "/", "//", "%"} -> 10
             [] o = "^" -> 12
UnPrec == 11
RAssoc(o) == o \in {"^", ".."}

AllBinOps == {"or", "and", "<", ">", "<=", ">=", "~=", "==", "|", "~", "&", "<<", ">>",
              "..", "+", "-", "*", "/", "//", "%", "^"}
AllUnOps  == {"-", "not", "#", "~"}

(* ---------- constructors ---------- *)
Name(x)       == Leaf("name", x)
Num(x)        == Leaf("num", x)
Str(x)        == Leaf("str", x)
Sym(x)        == Leaf("sym", x)
Vararg        == Leaf("vararg", "")
Par(e)        == N("par", "", <<e>>)
Bin(o, l, r)  == N("bin", o, <<l, r>>)
Un(o, e)      == N("un", o, <<e>>)
CallArgs(as)  == N("call", "paren", as)
Chain(cs)     == N("chain", "", cs)
CallOf(f, as) == Chain(<<Name(f), CallArgs(as)>>)
Cast(e, ty)   == N("cast", "", <<e, Leaf("type", ty)>>)
IfExp(c, t, e) == N("ifexp", "", <<c, t, e>>)
Exprs(es)     == N("exprs", "", es)
Block(ss)     == N("block", "", ss)
Semi(s)       == N("semi", "", <<s>>)
LName(x)      == Leaf("lname", x)
Local(ns, es) == N("local", IF es = <<>> THEN "" ELSE "=",
                   <<N("names", "", [i \in DOMAIN ns |-> LName(ns[i])]), Exprs(es)>>)
Assign(vs, es) == N("assign", "", <<N("vars", "", vs), Exprs(es)>>)
Return(es)    == N("return", "", <<Exprs(es)>>)
CallStmt(ch)  == N("callstmt", "", <<ch>>)
Table(fs)     == N("table", "", fs)
FPos(v)       == N("f_pos", "", <<v>>)
FName(k, v)   == N("f_name", k, <<v>>)
FExpr(k, v)   == N("f_expr", "", <<k, v>>)
EmptyBlock    == Block(<<>>)
If(c, b)      == N("if", "", <<c, b>>)
While(c, b)   == N("while", "", <<c, b>>)
Repeat(b, c)  == N("repeat", "", <<b, c>>)
Do(b)         == N("do", "", <<b>>)
NumFor(v, a, b, blk) == N("numfor", "", <<LName(v), a, b, blk>>)
GenFor(ns, es, blk)  == N("genfor", "", <<N("names", "", [i \in DOMAIN ns |-> LName(ns[i])]), Exprs(es), blk>>)
FuncBody(ps, blk) == <<N("params", "", [i \in DOMAIN ps |-> Leaf("pname", ps[i])]), N("ret", "", <<>>), blk>>
Func(ps, blk) == N("func", "", FuncBody(ps, blk))
FunctionDecl(nm, ps, blk) == N("function", nm, FuncBody(ps, blk))
LocalFunction(nm, ps, blk) == N("localfunction", nm, FuncBody(ps, blk))
Compound(op, v, e) == N("compound", op, <<v, e>>)

(* ---------- helpers ---------- *)
RECURSIVE Unwrap(_)
Unwrap(t) == IF t.k = "par" THEN Unwrap(t.c[1]) ELSE t

RECURSIVE ParDepth(_)
ParDepth(t) == IF t.k = "par" THEN 1 + ParDepth(t.c[1]) ELSE 0

IsCallChain(t) == t.k = "chain" /\ Len(t.c) > 0 /\ t.c[Len(t.c)].k \in {"call", "mcall"}
IsMulti(t)     == t.k = "vararg" \/ IsCallChain(t)

(* kinds that the grammar accepts as the operand of `::` / as a chain prefix without parentheses *)
PrimaryKinds == {"name", "num", "str", "sym", "vararg", "chain", "table", "func", "par", "interp"}

(***************************************************************************)
(* Faithful(t): the parser, given the token sequence of t, rebuilds t.      *)
(* Generators only emit faithful trees; a non-faithful tree is one that     *)
(* cannot be the result of parsing anything.                                *)
(***************************************************************************)
(* the printed form of t ends with a construct of this kind (not closed by a parenthesis) *)
RECURSIVE EndsWith(_, _)
EndsWith(t, kind) ==
  CASE t.k = kind  -> TRUE
    [] t.k = "bin" -> EndsWith(t.c[2], kind)
    [] t.k = "un"  -> EndsWith(t.c[1], kind)
    [] OTHER       -> FALSE

RECURSIVE Faithful(_)
Faithful(t) ==
  CASE t.k = "bin" ->
         LET o == t.a  l == t.c[1]  r == t.c[2] IN
         /\ Faithful(l) /\ Faithful(r)
         /\ (l.k = "bin" => \/ Prec(l.a) > Prec(o)
                            \/ Prec(l.a) = Prec(o) /\ ~RAssoc(o))
         /\ (l.k = "un"  => UnPrec > Prec(o))               \* (-a) ^ b needs its parentheses
         /\ ~EndsWith(l, "ifexp")                            \* an if-expression swallows what follows its else
         /\ (o = "<" => ~EndsWith(l, "cast"))                 \* `x :: T < y` starts a generic argument list
         /\ (r.k = "bin" => \/ Prec(r.a) > Prec(o)
                            \/ Prec(r.a) = Prec(o) /\ RAssoc(o))
    [] t.k = "un"   -> LET e == t.c[1] IN
                       /\ Faithful(e)
                       /\ (e.k = "bin" => Prec(e.a) > UnPrec)
                       /\ ~(t.a = "-" /\ e.k = "un" /\ e.a = "-")      \* `--` starts a comment
    [] t.k = "cast" -> Faithful(t.c[1]) /\ t.c[1].k \in PrimaryKinds
    [] t.k = "chain" -> /\ t.c[1].k \in {"name", "par"}
                        /\ \A i \in DOMAIN t.c : Faithful(t.c[i])
    [] OTHER        -> \A i \in DOMAIN t.c : Faithful(t.c[i])

(***************************************************************************)
(* Meaning(t, open): the normal form under which two programs are "the     *)
(* same program" (property C02/C05).  `open` says that the position is the  *)
(* open end of a value list, where parentheses around a call or `...`       *)
(* truncate to one value and are therefore NOT redundant.                   *)
(* Allowed differences erased here: redundant parentheses, semicolons,      *)
(* table separators, call sugar.  (Quote/escape spelling and number         *)
(* spelling are erased by the projection: leaves carry decoded values.)     *)
(***************************************************************************)
RECURSIVE FlattenSame(_, _, _)
FlattenSame(k, cs, i) == IF i > Len(cs) THEN <<>>
                         ELSE (IF cs[i].k = k THEN cs[i].c ELSE <<cs[i]>>) \o FlattenSame(k, cs, i + 1)

RECURSIVE Meaning(_, _)
MeaningList(cs, openLast) == [i \in DOMAIN cs |-> Meaning(cs[i], openLast /\ i = Len(cs))]

Meaning(t, open) ==
  CASE t.k = "par" ->
         LET inner == Unwrap(t) IN
         IF open /\ IsMulti(inner) THEN N("trunc", "", <<Meaning(inner, FALSE)>>)
                                   ELSE Meaning(inner, FALSE)
    [] t.k = "semi"  -> Meaning(t.c[1], FALSE)
    [] t.k = "ttuple" /\ Len(t.c) = 1 -> Meaning(t.c[1], FALSE)           \* a parenthesised Luau type
    [] t.k \in {"tunion", "tinter"} ->                                     \* unions / intersections are associative
         N(t.k, "", FlattenSame(t.k, [i \in DOMAIN t.c |-> Meaning(t.c[i], FALSE)], 1))
    [] t.k = "chain" ->
         LET p    == Meaning(t.c[1], FALSE)
             rest == [i \in 1..(Len(t.c) - 1) |-> Meaning(t.c[i + 1], FALSE)]
         IN  N("chain", "", IF p.k = "chain" THEN p.c \o rest ELSE <<p>> \o rest)
    [] t.k = "call"   -> N("call", "", MeaningList(t.c, TRUE))           \* sugar erased; last argument open
    [] t.k = "return" -> N("return", "", <<N("exprs", "", MeaningList(t.c[1].c, TRUE))>>)
    [] t.k \in {"local", "assign"} ->
         N(t.k, t.a, <<Meaning(t.c[1], FALSE),
                       N("exprs", "", MeaningList(t.c[2].c, Len(t.c[1].c) > Len(t.c[2].c)))>>)
    [] t.k = "genfor" ->
         N("genfor", "", <<Meaning(t.c[1], FALSE),
                           N("exprs", "", MeaningList(t.c[2].c, Len(t.c[2].c) < 4)),
                           Meaning(t.c[3], FALSE)>>)
    [] t.k = "table" ->
         N("table", "", [i \in DOMAIN t.c |->
                           IF t.c[i].k = "f_pos"
                           THEN N("f_pos", "", <<Meaning(t.c[i].c[1], i = Len(t.c))>>)
                           ELSE Meaning(t.c[i], FALSE)])
    [] OTHER -> N(t.k, t.a, [i \in DOMAIN t.c |-> Meaning(t.c[i], FALSE)])

SameMeaning(t1, t2) == Meaning(t1, FALSE) = Meaning(t2, FALSE)

(* Subtree at a path of child indices *)
RECURSIVE At(_, _)
At(t, path) == IF path = <<>> THEN t
               ELSE IF Head(path) \in DOMAIN t.c THEN At(t.c[Head(path)], Tail(path))
               ELSE Leaf("unresolved", "")


(***************************************************************************)
(* NTok(t): number of tokens the renderer prints for t (harness/src/       *)
(* render.rs).  Used by generators to enumerate comment slots; the harness  *)
(* reports its own count in every Render event and the trace specification  *)
(* rejects a disagreement as a tool error.                                  *)
(* Restrictions: tables with default separators, simple function names,     *)
(* one-word types.                                                          *)
(***************************************************************************)
RECURSIVE NTok(_), SumTok(_, _)
SumTok(cs, i) == IF i > Len(cs) THEN 0 ELSE NTok(cs[i]) + SumTok(cs, i + 1)
Commas(n) == IF n > 1 THEN n - 1 ELSE 0
ListTok(cs) == SumTok(cs, 1) + Commas(Len(cs))
TypeTok(cs) == IF cs = <<>> THEN 0 ELSE 2 * Len(cs)          \* `: T`  (attrib `<const>` is 3, see lname)
FuncBodyTok(c) == 2 + SumTok(c[1].c, 1) + Commas(Len(c[1].c)) + TypeTok(c[2].c) + NTok(c[3]) + 1
NTok(t) ==
  CASE t.k \in {"name", "num", "str", "sym", "vararg", "raw", "break", "continue"} -> 1
    [] t.k = "bin" -> NTok(t.c[1]) + 1 + NTok(t.c[2])
    [] t.k = "un" -> 1 + NTok(t.c[1])
    [] t.k = "par" -> 2 + NTok(t.c[1])
    [] t.k \in {"chain", "block", "callstmt", "f_pos"} -> SumTok(t.c, 1)
    [] t.k = "dot" -> 2
    [] t.k = "idx" -> 2 + NTok(t.c[1])
    [] t.k = "call" -> IF t.a = "paren" THEN 2 + ListTok(t.c) ELSE NTok(t.c[1])
    [] t.k = "mcall" -> 2 + NTok(t.c[1])
    [] t.k = "table" -> 2 + ListTok(t.c)
    [] t.k = "f_name" -> 2 + NTok(t.c[1])
    [] t.k = "f_expr" -> 3 + NTok(t.c[1]) + NTok(t.c[2])
    [] t.k = "func" -> 1 + FuncBodyTok(t.c)
    [] t.k = "ifexp" -> 3 + SumTok(t.c, 1) + (Len(t.c) - 3)
    [] t.k = "cast" -> NTok(t.c[1]) + 2
    [] t.k = "semi" -> NTok(t.c[1]) + 1
    [] t.k \in {"pname", "lname"} -> 1 + SumTok(t.c, 1)
    [] t.k = "type" -> 2
    [] t.k = "attrib" -> 3
    [] t.k = "pvararg" -> 1 + SumTok(t.c, 1)
    [] t.k = "local" -> 1 + ListTok(t.c[1].c) + (IF t.c[2].c = <<>> THEN 0 ELSE 1 + ListTok(t.c[2].c))
    [] t.k = "assign" -> ListTok(t.c[1].c) + 1 + ListTok(t.c[2].c)
    [] t.k = "compound" -> NTok(t.c[1]) + 1 + NTok(t.c[2])
    [] t.k = "do" -> 2 + NTok(t.c[1])
    [] t.k = "while" -> 3 + NTok(t.c[1]) + NTok(t.c[2])
    [] t.k = "repeat" -> 2 + NTok(t.c[1]) + NTok(t.c[2])
    [] t.k = "if" -> LET n == IF t.a = "else" THEN Len(t.c) - 1 ELSE Len(t.c) IN
                     3 + SumTok(t.c, 1) + (n - 2) + (IF t.a = "else" THEN 1 ELSE 0)
    [] t.k = "numfor" -> 5 + SumTok(t.c, 1) + (IF Len(t.c) = 5 THEN 1 ELSE 0)
    [] t.k = "genfor" -> 4 + ListTok(t.c[1].c) + ListTok(t.c[2].c) + NTok(t.c[3])
    [] t.k = "function" -> 2 + FuncBodyTok(t.c)
    [] t.k = "localfunction" -> 3 + FuncBodyTok(t.c)
    [] t.k = "return" -> 1 + ListTok(t.c[1].c)
    [] t.k = "goto" -> 2
    [] t.k = "label" -> 3
    [] OTHER -> 1

(* ---------- lexical hazards between adjacent printed tokens ---------- *)
LexHazard(a, b) ==
  \/ a = "-" /\ b = "-"                     \* `--` starts a comment
  \/ a = "[" /\ b \in {"[[", "[=["}          \* `[[[` mis-lexes
  \/ a = "{" /\ b = "{"                      \* only inside an interpolated string: `{{`
=============================================================================
