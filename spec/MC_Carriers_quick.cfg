SPECIFICATION Spec
CONSTANTS
  NFiles = {1, 2}
  Locations = {"cwd", "subdir"}
INVARIANT Emit
CHECK_DEADLOCK FALSE
