---------------------------- MODULE MC_CliFiles ----------------------------
(***************************************************************************)
(* Generator of file-set scenarios for C13 / C14 / C19: sequences of up to  *)
(* MaxFiles files over the classes, each named explicitly or placed in a    *)
(* directory argument, crossed with mode, output format, --verify and       *)
(* --num-threads.  The order of the sequence is the order on the command    *)
(* line.  Classes "empty" (zero bytes: already formatted) and "nonl" (only  *)
(* the final newline is missing: differs) probe the already-formatted test. *)
(***************************************************************************)
EXTENDS Naturals, Sequences, FiniteSets, TLC, Json

CONSTANTS Classes, Locs, MaxFiles, Modes, Formats, Threads, VerifyOpts, RangeOpts
VARIABLES files, mode, fmt, verify, threads, rng, phase
vars == <<files, mode, fmt, verify, threads, rng, phase>>

\* loc: "arg" = named on the command line; "dir" = found by walking the directory argument `d`; "both" = lies in `d`
\* AND is named explicitly as well (reachable twice: must be processed, reported and written once).
\* A missing file can only be named.
Items == {[cls |-> c, loc |-> l] : c \in Classes, l \in Locs} \ {[cls |-> "missing", loc |-> l] : l \in {"dir", "both"}}
\* sequences of three files (thorough tier) draw from the ten original classes, each reachable one way: the overlap
\* location and the two edge classes are explored in pairs (34^3 sequences x options would be 1.5 M scenarios)
Items3 == {it \in Items : it.loc # "both" /\ it.cls \notin {"empty", "nonl"}}
ItemsFor(n) == IF n >= 3 THEN Items3 ELSE Items
Init == files \in UNION {[1..n -> ItemsFor(n)] : n \in 1..MaxFiles} /\ mode = "" /\ fmt = "" /\ verify = FALSE /\ threads = 0 /\ rng = FALSE /\ phase = "files"
Configure ==
  /\ phase = "files"
  /\ \E m \in Modes, f \in Formats, v \in VerifyOpts, t \in Threads, r \in RangeOpts :
        \* a formatting range (bytes 0..5, before any syntax error of the unparseable class): only next to files whose
        \* expected outcome does not depend on how much of them is formatted
        /\ (r => (~v /\ \A i \in DOMAIN files : files[i].cls \in {"formatted", "unparseable", "missing", "nonutf8", "crash"}))
        /\ rng' = r
        /\ (m = "write" => f \in {"standard", "json"})
        /\ ((\E i \in DOMAIN files : files[i].cls = "verifyfail") => v)          \* only meaningful with --verify
        /\ mode' = m /\ fmt' = f /\ verify' = v /\ threads' = t
  /\ phase' = "done" /\ UNCHANGED files
Next == Configure
Spec == Init /\ [][Next]_vars

Case == [ files |-> [i \in DOMAIN files |-> [cls |-> files[i].cls, loc |-> files[i].loc, i |-> i]],
          mode |-> mode, fmt |-> fmt, verify |-> verify, threads |-> threads, rng |-> rng,
          sortreq |-> \E i \in DOMAIN files : files[i].cls = "verifyfail" ]
Emit == phase = "done" => PrintT(<<"CASE", ToJson(Case)>>)
=============================================================================
