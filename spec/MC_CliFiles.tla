---------------------------- MODULE MC_CliFiles ----------------------------
(***************************************************************************)
(* Generator of file-set scenarios for C13 / C14 / C19: sequences of up to  *)
(* MaxFiles files over the classes, each named explicitly or placed in a    *)
(* directory argument, crossed with mode, output format, --verify and       *)
(* --num-threads.  The order of the sequence is the order on the command    *)
(* line.                                                                    *)
(***************************************************************************)
EXTENDS Naturals, Sequences, FiniteSets, TLC, Json

CONSTANTS Classes, Locs, MaxFiles, Modes, Formats, Threads, VerifyOpts
VARIABLES files, mode, fmt, verify, threads, phase
vars == <<files, mode, fmt, verify, threads, phase>>

Items == {[cls |-> c, loc |-> l] : c \in Classes, l \in Locs} \ {[cls |-> "missing", loc |-> "dir"]}
Init == files \in UNION {[1..n -> Items] : n \in 1..MaxFiles} /\ mode = "" /\ fmt = "" /\ verify = FALSE /\ threads = 0 /\ phase = "files"
Configure ==
  /\ phase = "files"
  /\ \E m \in Modes, f \in Formats, v \in VerifyOpts, t \in Threads :
        /\ (m = "write" => f \in {"standard", "json"})
        /\ ((\E i \in DOMAIN files : files[i].cls = "verifyfail") => v)          \* only meaningful with --verify
        /\ mode' = m /\ fmt' = f /\ verify' = v /\ threads' = t
  /\ phase' = "done" /\ UNCHANGED files
Next == Configure
Spec == Init /\ [][Next]_vars

Case == [ files |-> [i \in DOMAIN files |-> [cls |-> files[i].cls, loc |-> files[i].loc, i |-> i]],
          mode |-> mode, fmt |-> fmt, verify |-> verify, threads |-> threads,
          sortreq |-> \E i \in DOMAIN files : files[i].cls = "verifyfail" ]
Emit == phase = "done" => PrintT(<<"CASE", ToJson(Case)>>)
=============================================================================
