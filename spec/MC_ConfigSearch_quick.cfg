SPECIFICATION Spec
CONSTANTS
  MaxDev = 2
  OptionSets = {"none", "search_parent", "no_ec", "override", "config_path"}
  TargetSets = {"f3", "f4", "f5", "f3f4", "f4f3", "f5f4", "f4f4", "f4af4", "dir", "stdin", "stdinpath"}
INVARIANT Emit
INVARIANT DesignRefines
CHECK_DEADLOCK FALSE
