------------------------------ MODULE MC_Nest ------------------------------
(***************************************************************************)
(* Generator of nesting ladders (C07: no blow-up of the trial-formatting     *)
(* heuristics, no stack exhaustion; also C01 C02 C06): one construct nested   *)
(* in itself (or alternating with others) to depth 1..MaxDepth, built one     *)
(* level per step.                                                           *)
(***************************************************************************)
EXTENDS LuaSyntax, TLC, Json

CONSTANTS Kinds, MaxDepth
VARIABLES kind, depth, tree
vars == <<kind, depth, tree>>

Wrap(k, d, inner) ==
  CASE k = "call"    -> CallOf("f", <<inner>>)
    [] k = "call2"   -> CallOf("f", <<Name("a"), inner>>)
    [] k = "tbl"     -> Table(<<FPos(inner)>>)
    [] k = "named"   -> Table(<<FName("k", inner)>>)
    [] k = "calltbl" -> CallOf("f", <<Table(<<FName("k", inner)>>)>>)
    [] k = "fn"      -> Func(<<>>, Block(<<Return(<<inner>>)>>))
    [] k = "callfn"  -> CallOf("f", <<Func(<<>>, Block(<<Return(<<inner>>)>>))>>)
    [] k = "par"     -> Par(inner)
    [] k = "not"     -> Un("not", inner)
    [] k = "binl"    -> Bin("+", inner, Name("x"))
    [] k = "binr"    -> Bin("..", Name("x"), inner)
    [] k = "idx"     -> Chain(<<Name("t"), N("idx", "", <<inner>>)>>)
    [] k = "method"  -> Chain(<<Name("o"), N("mcall", "m", <<CallArgs(<<inner>>)>>)>>)
    [] k = "mixed"   -> IF d % 3 = 0 THEN CallOf("f", <<inner>>)
                        ELSE IF d % 3 = 1 THEN Table(<<FName("k", inner)>>)
                        ELSE Func(<<>>, Block(<<Return(<<inner>>)>>))

Init == kind \in Kinds /\ depth = 0 /\ tree = Name("leaf")
Deeper == depth < MaxDepth /\ depth' = depth + 1 /\ tree' = Wrap(kind, depth, tree) /\ UNCHANGED kind
Spec == Init /\ [][Deeper]_vars

Case == [ tree |-> Block(<<Local(<<"x">>, <<tree>>)>>), layout |-> [profile |-> "spaced"], cfg |-> [syntax |-> "Lua51"],
          meta |-> [src |-> "Nest", kind |-> kind, depth |-> depth, sig |-> "nest:" \o kind] ]
Emit == depth > 0 => PrintT(<<"CASE", ToJson(Case)>>)
=============================================================================
