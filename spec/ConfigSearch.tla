---------------------------- MODULE ConfigSearch ----------------------------
(***************************************************************************)
(* C15: each file is formatted with the configuration the documented search *)
(* finds.  Directory spine  up2 / up1 / cwd / sub1 / sub2  (levels 1..5, the *)
(* working directory is level 3) plus $XDG_CONFIG_HOME{,/stylua} and          *)
(* $HOME/.config{,/stylua}.  Every configuration file carries a distinct      *)
(* indent width, so the file that was applied can be read off the output:     *)
(*   stylua.toml at level i -> i        .stylua.toml at level i -> 10 + i      *)
(*   .editorconfig at level i -> 20 + i  xdg 31, xdg/stylua 32, home 33,       *)
(*   home/stylua 34, --config-path file 40, command-line override 50,         *)
(*   defaults 0.                                                              *)
(* Resolve = the documented precedence (property layer).                      *)
(* ImplFind = find_config_file with its per-directory memo over a HISTORY of  *)
(* lookups (config.rs:141-176); design-level obligation: ImplFind = Resolve   *)
(* after any history.                                                         *)
(***************************************************************************)
EXTENDS Naturals, Sequences, FiniteSets

Cwd == 3
Levels == 1..5

(* sc.lv[i] = [toml |-> "none"|"stylua"|"dot"|"both", ec |-> "none"|"plain"|"root"] *)
TomlAt(sc, i) == sc.lv[i].toml
TomlK(sc, i) ==        \* set of acceptable marks when level i holds a toml (both names: precedence undocumented)
  CASE TomlAt(sc, i) = "stylua" -> {i}
    [] TomlAt(sc, i) = "dot" -> {10 + i}
    [] TomlAt(sc, i) = "both" -> {i, 10 + i}
    [] OTHER -> {}

RECURSIVE WalkToml(_, _, _)
WalkToml(sc, i, stop) ==      \* nearest toml from level i up to level `stop` (inclusive)
  IF TomlK(sc, i) # {} THEN TomlK(sc, i)
  ELSE IF i = stop \/ i = 1 THEN {}
  ELSE WalkToml(sc, i - 1, stop)

GlobalToml(sc) ==
  IF sc.xdg THEN {31} ELSE IF sc.xdgs THEN {32} ELSE IF sc.home THEN {33} ELSE IF sc.homes THEN {34} ELSE {}

(* ec flavour "perfile": next to the `[*.lua]` section (mark 20 + i) a later section `[u*.lua]` (mark 70 + i): the   *)
(* sections of an .editorconfig apply per FILE NAME, so two files of one directory can resolve differently (`alt`   *)
(* = the target is the u-named file).                                                                                *)
RECURSIVE WalkEcA(_, _, _)
WalkEcA(sc, i, alt) ==        \* the closest .editorconfig wins for a key both set; `root` stops the upward search
  IF sc.lv[i].ec # "none" THEN (IF sc.lv[i].ec = "perfile" /\ alt THEN {70 + i} ELSE {20 + i})
  ELSE IF i = 1 THEN {}
  ELSE WalkEcA(sc, i - 1, alt)
WalkEc(sc, i) == WalkEcA(sc, i, FALSE)

(* acceptable marks for a target whose directory is level t (alt: the second, u-named file of that directory) *)
ResolveA(sc, t, alt) ==
  IF sc.override THEN {50}
  ELSE IF sc.config_path THEN {40}
  ELSE LET found == WalkToml(sc, t, IF sc.search_parent THEN 1 ELSE Cwd) IN
       IF found # {} THEN found
       ELSE IF sc.search_parent /\ GlobalToml(sc) # {} THEN GlobalToml(sc)
       ELSE IF ~sc.no_ec /\ WalkEcA(sc, t, alt) # {} THEN WalkEcA(sc, t, alt)
       ELSE {0}
Resolve(sc, t) == ResolveA(sc, t, FALSE)
IsAlt(tg) == "alt" \in DOMAIN tg /\ tg.alt

(* the directory level whose configuration applies to a target *)
TargetLevel(tg) == CASE tg.kind = "file" -> tg.level
                     [] tg.kind = "dirfile" -> tg.level      \* found through a directory argument
                     [] tg.kind = "stdin" -> Cwd
                     [] tg.kind = "stdinpath" -> tg.level

(* ---------------- Impl: memoised recursive search over a history of lookups ---------------- *)
(* cache : level -> {"unset"} \cup marks ; the code caches the result for the directory it was asked about
   and for every directory it recursed through *)
RECURSIVE ImplLookup(_, _, _, _)
ImplLookup(sc, cache, i, stop) ==       \* <<mark set, new cache>>
  IF cache[i] # {99} THEN <<cache[i], cache>>
  ELSE IF TomlK(sc, i) # {} THEN <<TomlK(sc, i), [cache EXCEPT ![i] = TomlK(sc, i)]>>
  ELSE IF i = stop \/ i = 1
       THEN (IF sc.search_parent /\ GlobalToml(sc) # {} THEN <<GlobalToml(sc), cache>>      \* early return: not cached
             ELSE <<{}, [cache EXCEPT ![i] = {}]>>)
       ELSE LET r == ImplLookup(sc, cache, i - 1, stop) IN <<r[1], [r[2] EXCEPT ![i] = r[1]]>>

EmptyCache == [i \in Levels |-> {99}]
RECURSIVE ImplHistory(_, _, _, _)
ImplHistory(sc, targets, k, cache) ==   \* sequence of mark sets, one per target, with the cache threaded through
  IF k > Len(targets) THEN <<>>
  ELSE LET r == ImplLookup(sc, cache, TargetLevel(targets[k]), IF sc.search_parent THEN 1 ELSE Cwd)
           m == IF sc.override THEN {50} ELSE IF sc.config_path THEN {40}
                ELSE IF r[1] # {} THEN r[1]
                ELSE IF ~sc.no_ec /\ WalkEcA(sc, TargetLevel(targets[k]), IsAlt(targets[k])) # {} THEN WalkEcA(sc, TargetLevel(targets[k]), IsAlt(targets[k]))
                ELSE {0}
       IN <<m>> \o ImplHistory(sc, targets, k + 1, r[2])

ImplRefines(sc, targets) ==
  LET h == ImplHistory(sc, targets, 1, EmptyCache) IN
  \A k \in DOMAIN targets : h[k] \subseteq ResolveA(sc, TargetLevel(targets[k]), IsAlt(targets[k])) /\ h[k] # {}
=============================================================================
