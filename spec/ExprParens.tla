----------------------------- MODULE ExprParens -----------------------------
(***************************************************************************)
(* Implementation-shaped model of StyLua's parenthesis rule, structured     *)
(* like src/formatters/expression.rs: one operator per function, one CASE   *)
(* arm per match arm, the ExpressionContext actually passed on each call.   *)
(*   Excess      = check_excess_parentheses          (expression.rs:127)    *)
(*   FmtSingle   = format_expression_internal        (expression.rs:190)    *)
(*   FmtHang     = format_hanging_expression_        (expression.rs:1295)   *)
(*   HangBinop   = hang_binop_expression             (expression.rs:1121)   *)
(* Width decisions are left nondeterministic: FmtHang/HangBinop return the  *)
(* SET of trees the code can produce for some width.                        *)
(***************************************************************************)
EXTENDS LuaSyntax

KeepCtx == {"Prefix", "TypeAssertion"}
LhsCtx(o) == IF o = "^" THEN "BinaryLHSExponent" ELSE "BinaryLHS"

RECURSIVE Excess(_, _)         \* TRUE = the parentheses around `inner` are dropped
Excess(inner, ctx) ==
  CASE inner.k = "par"    -> TRUE
    [] inner.k = "un"     -> IF ctx = "BinaryLHSExponent" THEN FALSE
                             ELSE IF ctx = "BinaryLHS" /\ inner.a = "not" THEN FALSE
                             ELSE Excess(inner.c[1], ctx)
    [] inner.k = "bin"    -> FALSE
    [] inner.k = "cast"   -> ctx \notin {"UnaryOrBinary", "BinaryLHS", "BinaryLHSExponent"}
    [] inner.k = "chain"  -> ~IsCallChain(inner)
    [] inner.k = "vararg" -> FALSE
    [] inner.k = "ifexp"  -> FALSE
    [] OTHER              -> TRUE

(* parenthesise_double_minus: `- -x` would print as `--x`, a comment *)
DoubleMinus(o, e) ==
  IF o = "-" /\ (\/ e.k = "un" /\ e.a = "-"
                 \/ e.k = "par" /\ e.c[1].k = "un" /\ e.c[1].a = "-")
  THEN Un("-", Par(e))
  ELSE Un(o, e)

RECURSIVE FmtSingle(_, _)
FmtSingle(t, ctx) ==
  CASE t.k = "par" ->
         IF Excess(t.c[1], ctx) /\ ctx \notin KeepCtx
         THEN FmtSingle(t.c[1], ctx)                          \* the context is kept for the inner expression
         ELSE Par(FmtSingle(t.c[1], "Standard"))
    [] t.k = "un"  ->
         DoubleMinus(t.a, FmtSingle(t.c[1], "UnaryOrBinary"))
    [] t.k = "bin" -> Bin(t.a, FmtSingle(t.c[1], LhsCtx(t.a)), FmtSingle(t.c[2], "UnaryOrBinary"))
    [] t.k = "cast" -> N("cast", "", <<FmtSingle(t.c[1], "TypeAssertion"), t.c[2]>>)
    [] t.k = "ifexp" -> N("ifexp", "", [i \in DOMAIN t.c |-> FmtSingle(t.c[i], "Standard")])
    [] OTHER       -> t

RECURSIVE FmtHang(_, _), HangBinop(_, _)
FmtHang(t, ctx) ==
  CASE t.k = "par" ->
         IF Excess(t.c[1], ctx) /\ ctx \notin KeepCtx
         THEN FmtHang(t.c[1], ctx)                             \* NB: keeps ctx (single-line path resets it)
         ELSE {Par(FmtSingle(t.c[1], "Standard"))} \cup {Par(x) : x \in FmtHang(t.c[1], "Standard")}
    [] t.k = "un"  -> {DoubleMinus(t.a, x) : x \in FmtHang(t.c[1], "UnaryOrBinary")}
    [] t.k = "bin" -> {Bin(t.a, l, r) : l \in HangBinop(t.c[1], IF t.a = "^" THEN "BinaryLHSExponent" ELSE "UnaryOrBinary"),
                                        r \in HangBinop(t.c[2], "Standard")}
    [] t.k = "cast" -> {N("cast", "", <<x, t.c[2]>>) : x \in FmtHang(t.c[1], "TypeAssertion")}
    [] OTHER       -> {FmtSingle(t, ctx)}

HangBinop(t, ectx0) ==
  IF t.k = "bin"
  THEN LET ectx == IF ectx0 = "Standard" THEN "UnaryOrBinary" ELSE ectx0   \* operands of a binary operator
           ls == HangBinop(t.c[1], ectx) \cup {FmtSingle(t.c[1], LhsCtx(t.a))}
           rs == HangBinop(t.c[2], ectx) \cup {FmtSingle(t.c[2], "UnaryOrBinary")}
       IN  {Bin(t.a, l, r) : l \in ls, r \in rs}
  ELSE FmtHang(t, ectx0)

(***************************************************************************)
(* Expression contexts: where the expression sits in a statement.           *)
(* CtxProgram(c, e) is the whole program; CtxPath(c) the child-index path   *)
(* from the root block to e; CtxEntry(c) the ExpressionContext the code     *)
(* starts with; CondCtx: one parenthesis layer is stripped first            *)
(* (remove_condition_parentheses, stmt.rs:52).                              *)
(***************************************************************************)
AllContexts == {"local", "local2", "assign", "return", "return2", "if", "while", "repeat",
                "arg", "arg2", "argfirst", "tpos", "tposfirst", "tname", "tkey", "index",
                "prefix", "prefixl", "prefixm", "prefixi", "castop", "numfor", "genfor", "compound", "ifexp_then", "ifexp_else", "elseif"}
LuauContexts == {"compound", "ifexp_then", "ifexp_else", "castop"}
CondCtx == {"if", "while", "repeat", "elseif"}

F1(e) == Block(<<e>>)
CtxProgram(c, e) ==
  CASE c = "local"     -> F1(Local(<<"x">>, <<e>>))
    [] c = "local2"    -> F1(Local(<<"x", "y">>, <<e>>))
    [] c = "assign"    -> F1(Assign(<<Name("x")>>, <<e>>))
    [] c = "return"    -> F1(Return(<<e>>))
    [] c = "return2"   -> F1(Return(<<Num("1"), e>>))
    [] c = "if"        -> F1(If(e, EmptyBlock))
    [] c = "elseif"    -> F1(N("if", "", <<Name("q"), EmptyBlock, e, EmptyBlock>>))
    [] c = "while"     -> F1(While(e, EmptyBlock))
    [] c = "repeat"    -> F1(Repeat(EmptyBlock, e))
    [] c = "arg"       -> F1(CallStmt(CallOf("f", <<e>>)))
    [] c = "arg2"      -> F1(CallStmt(CallOf("f", <<Num("1"), e>>)))
    [] c = "argfirst"  -> F1(CallStmt(CallOf("f", <<e, Num("1")>>)))
    [] c = "tpos"      -> F1(Local(<<"t">>, <<Table(<<FPos(e)>>)>>))
    [] c = "tposfirst" -> F1(Local(<<"t">>, <<Table(<<FPos(e), FPos(Num("1"))>>)>>))
    [] c = "tname"     -> F1(Local(<<"t">>, <<Table(<<FName("k", e)>>)>>))
    [] c = "tkey"      -> F1(Local(<<"t">>, <<Table(<<FExpr(e, Num("1"))>>)>>))
    [] c = "index"     -> F1(Assign(<<Name("x")>>, <<Chain(<<Name("t"), N("idx", "", <<e>>)>>)>>))
    [] c = "prefix"    -> F1(CallStmt(Chain(<<Par(e), CallArgs(<<>>)>>)))
    \* a parenthesised prefix inside an expression: called, method-called, indexed
    [] c = "prefixl"   -> F1(Local(<<"x">>, <<Chain(<<Par(e), CallArgs(<<>>)>>)>>))
    [] c = "prefixm"   -> F1(Local(<<"x">>, <<Chain(<<Par(e), N("mcall", "m", <<CallArgs(<<Num("1")>>)>>)>>)>>))
    [] c = "prefixi"   -> F1(Local(<<"x">>, <<Chain(<<Par(e), Leaf("dot", "k")>>)>>))
    \* the parenthesised operand of a type assertion: `::` binds tighter than any operator inside
    [] c = "castop"    -> F1(Local(<<"x">>, <<Cast(Par(e), "T")>>))
    [] c = "numfor"    -> F1(NumFor("i", e, Num("2"), EmptyBlock))
    [] c = "genfor"    -> F1(GenFor(<<"k">>, <<e>>, EmptyBlock))
    [] c = "compound"  -> F1(Compound("+=", Name("x"), e))
    [] c = "ifexp_then" -> F1(Local(<<"x">>, <<IfExp(Name("q"), e, Num("1"))>>))
    [] c = "ifexp_else" -> F1(Local(<<"x">>, <<IfExp(Name("q"), Num("1"), e)>>))

CtxPath(c) ==
  CASE c \in {"local", "local2", "assign"} -> <<1, 2, 1>>
    [] c = "return"    -> <<1, 1, 1>>
    [] c = "return2"   -> <<1, 1, 2>>
    [] c \in {"if", "while"} -> <<1, 1>>
    [] c = "elseif"    -> <<1, 3>>
    [] c = "repeat"    -> <<1, 2>>
    [] c = "arg"       -> <<1, 1, 2, 1>>
    [] c = "arg2"      -> <<1, 1, 2, 2>>
    [] c = "argfirst"  -> <<1, 1, 2, 1>>
    [] c \in {"tpos", "tposfirst", "tname"} -> <<1, 2, 1, 1, 1>>
    [] c = "tkey"      -> <<1, 2, 1, 1, 1>>
    [] c = "index"     -> <<1, 2, 1, 2, 1>>
    [] c = "prefix"    -> <<1, 1, 1, 1>>
    [] c \in {"prefixl", "prefixm", "prefixi", "castop"} -> <<1, 2, 1, 1, 1>>
    [] c = "numfor"    -> <<1, 2>>
    [] c = "genfor"    -> <<1, 2, 1>>
    [] c = "compound"  -> <<1, 2>>
    [] c = "ifexp_then" -> <<1, 2, 1, 2>>
    [] c = "ifexp_else" -> <<1, 2, 1, 3>>

CondStrip(e) == Unwrap(e)        \* remove_condition_parentheses strips every pair

(* The set of expression trees the model says the code can print for e in context c *)
Pred(c, e) ==
  LET e0 == IF c \in CondCtx THEN CondStrip(e) ELSE e
  IN  {FmtSingle(e0, "Standard")} \cup FmtHang(e0, "Standard")

(* Design-level obligation: whatever the rule prints parses back to itself and means the same *)
RuleSafe(c, e) ==
  \A p \in Pred(c, e) :
     /\ Faithful(CtxProgram(c, p))
     /\ SameMeaning(CtxProgram(c, p), CtxProgram(c, e))
=============================================================================
