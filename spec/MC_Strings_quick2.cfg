SPECIFICATION Spec
CONSTANTS
  Alpha = {"SQ", "DQ", "BS", "n", "1", "x", "LF"}
  MaxLen = 4
INVARIANT Emit
INVARIANT DesignSafe
CHECK_DEADLOCK FALSE
