SPECIFICATION Spec
CONSTANTS
  ItemKinds = {"pcall", "func", "afunc"}
  MaxTop = 3
  MaxDev = 2
  DevTypes = {"semi", "dir", "tail", "range"}
  WithReturn = FALSE
INVARIANT Emit
CHECK_DEADLOCK FALSE
