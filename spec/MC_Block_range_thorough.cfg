SPECIFICATION Spec
CONSTANTS
  ItemKinds = {"local", "call", "pcall", "do", "func", "afunc"}
  MaxTop = 3
  MaxDev = 2
  DevTypes = {"semi", "tail", "range"}
  WithReturn = FALSE
INVARIANT Emit
CHECK_DEADLOCK FALSE
