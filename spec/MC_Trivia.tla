----------------------------- MODULE MC_Trivia -----------------------------
(***************************************************************************)
(* Generator for comment-placement cases (C03; also C01 C02 C06 C07 C10     *)
(* C11): a catalogue of construct templates x every inter-token slot x      *)
(* comment kind.  A case is built as a behaviour                             *)
(*    Init (pick a template) -> AddComment (slot, kind) [-> AddComment]      *)
(* with at most MaxComments comments; every state is printed as a case.      *)
(***************************************************************************)
EXTENDS LuaSyntax, TLC, Json

CONSTANTS Kinds, MaxComments, Groups

VARIABLES tmpl, comments
vars == <<tmpl, comments>>

A == Name("a")  B == Name("b")  Cn == Name("c")  One == Num("1")  Two == Num("2")
CallF(as) == CallOf("f", as)
Body1 == Block(<<CallStmt(CallF(<<>>))>>)
RetBody == Block(<<Return(<<A>>)>>)
MethodChain == Chain(<<Name("o"), Leaf("dot", "a"), N("mcall", "m", <<CallArgs(<<One>>)>>), N("mcall", "n", <<CallArgs(<<>>)>>)>>)

T(name, syntax, group, stmts) == [name |-> name, syntax |-> syntax, group |-> group, tree |-> Block(stmts)]

Catalogue == {
  T("local1", "Lua51", "stmt", <<Local(<<"x">>, <<One>>)>>),
  T("local2", "Lua51", "stmt", <<Local(<<"x", "y">>, <<One, Two>>)>>),
  T("local0", "Lua51", "stmt", <<Local(<<"x">>, <<>>)>>),
  T("assign1", "Lua51", "stmt", <<Assign(<<Name("x")>>, <<One>>)>>),
  T("assign_idx", "Lua51", "stmt", <<Assign(<<Chain(<<Name("t"), Leaf("dot", "k")>>), Chain(<<Name("t"), N("idx", "", <<One>>)>>)>>, <<One, Two>>)>>),
  T("assign_call", "Lua51", "stmt", <<Assign(<<Name("x"), Name("y")>>, <<CallF(<<>>)>>)>>),
  T("call2", "Lua51", "call", <<CallStmt(CallF(<<A, B>>))>>),
  T("call0", "Lua51", "call", <<CallStmt(CallF(<<>>))>>),
  T("call_str", "Lua51", "call", <<CallStmt(Chain(<<Name("f"), N("call", "str", <<Str("s")>>)>>))>>),
  T("call_tbl", "Lua51", "call", <<CallStmt(Chain(<<Name("f"), N("call", "table", <<Table(<<FPos(One)>>)>>)>>))>>),
  T("call_pstr", "Lua51", "call", <<CallStmt(CallF(<<Str("s")>>))>>),
  T("call_ptbl", "Lua51", "call", <<CallStmt(CallF(<<Table(<<FPos(One)>>)>>))>>),
  T("method", "Lua51", "call", <<CallStmt(MethodChain)>>),
  T("call_fn", "Lua51", "call", <<CallStmt(CallF(<<A, Func(<<"p">>, RetBody)>>))>>),
  T("call_semi_paren", "Lua51", "call", <<Semi(Local(<<"x">>, <<A>>)), CallStmt(Chain(<<Par(B), CallArgs(<<>>)>>))>>),
  T("return0", "Lua51", "stmt", <<Return(<<>>)>>),
  T("return2", "Lua51", "stmt", <<Return(<<A, B>>)>>),
  T("return_bin", "Lua51", "expr", <<Return(<<Bin("or", Bin("and", A, B), Cn)>>)>>),
  T("if1", "Lua51", "block", <<If(A, Body1)>>),
  T("if_ret", "Lua51", "block", <<N("function", "g", FuncBody(<<>>, Block(<<If(Un("not", A), Block(<<Return(<<>>)>>))>>)))>>),
  T("if_else", "Lua51", "block", <<N("if", "else", <<A, Body1, B, EmptyBlock, EmptyBlock>>)>>),
  T("while1", "Lua51", "block", <<While(A, Body1)>>),
  T("while_break", "Lua51", "block", <<While(A, Block(<<Leaf("break", "")>>))>>),
  T("repeat1", "Lua51", "block", <<Repeat(Body1, A)>>),
  T("do1", "Lua51", "block", <<Do(Body1)>>),
  T("numfor", "Lua51", "block", <<NumFor("i", One, Two, Body1)>>),
  T("numfor_step", "Lua51", "block", <<N("numfor", "step", <<LName("i"), One, Two, One, EmptyBlock>>)>>),
  T("genfor", "Lua51", "block", <<GenFor(<<"k", "v">>, <<CallOf("pairs", <<Name("t")>>)>>, Body1)>>),
  \* loop variables too long for a narrow line next to an iterator call that hugs its table
  T("genfor_tbl", "Lua51", "block", <<GenFor(<<"first_long_name", "second_long_name">>, <<CallOf("pairs", <<Table(<<FName("alpha", One), FName("beta", Two)>>)>>)>>, Body1)>>),
  \* an if / else one level down: a comment in front of `else` sits at the depth of the `else`
  T("do_if_else", "Lua51", "block", <<Do(Block(<<N("if", "else", <<A, Body1, B, EmptyBlock, EmptyBlock>>)>>))>>),
  T("function", "Lua51", "func", <<FunctionDecl("g", <<"p", "q">>, RetBody)>>),
  T("function0", "Lua51", "func", <<FunctionDecl("g", <<>>, EmptyBlock)>>),
  T("localfunction", "Lua51", "func", <<LocalFunction("g", <<"p">>, RetBody)>>),
  \* a call followed by the block's last statement: not a "simple" block, must never be collapsed to one of the two
  T("function_call_ret", "Lua51", "func", <<LocalFunction("g", <<"p">>, Block(<<CallStmt(CallF(<<Name("p")>>)), Return(<<Name("p")>>)>>))>>),
  T("if_call_ret", "Lua51", "block", <<N("function", "g", FuncBody(<<>>, Block(<<If(A, Block(<<CallStmt(CallF(<<>>)), Return(<<>>)>>))>>)))>>),
  T("anonfunc", "Lua51", "func", <<Local(<<"g">>, <<Func(<<"p">>, RetBody)>>)>>),
  T("table_pos", "Lua51", "table", <<Local(<<"t">>, <<Table(<<FPos(One), FPos(Two)>>)>>)>>),
  T("table_named", "Lua51", "table", <<Local(<<"t">>, <<Table(<<FName("k", One), FExpr(A, B)>>)>>)>>),
  T("table_empty", "Lua51", "table", <<Local(<<"t">>, <<Table(<<>>)>>)>>),
  T("table_nested", "Lua51", "table", <<Local(<<"t">>, <<Table(<<FPos(Table(<<FPos(One)>>)), FName("k", Table(<<>>))>>)>>)>>),
  T("table_fn", "Lua51", "table", <<Local(<<"t">>, <<Table(<<FName("k", One), FName("cb", Func(<<>>, EmptyBlock))>>)>>)>>),
  T("table_fn_ret", "Lua51", "table", <<Local(<<"t">>, <<Table(<<FName("cb", Func(<<"p">>, RetBody)), FPos(One)>>)>>)>>),
  T("table_call", "Lua51", "table", <<Local(<<"t">>, <<Table(<<FPos(CallF(<<A>>)), FName("k", CallF(<<>>))>>)>>)>>),
  T("return_table", "Lua51", "table", <<Return(<<Table(<<FPos(A), FPos(B)>>)>>)>>),
  T("call_fn0", "Lua51", "call", <<CallStmt(CallF(<<Func(<<>>, EmptyBlock)>>))>>),
  T("call_nested", "Lua51", "call", <<CallStmt(CallF(<<CallOf("g", <<A>>), CallOf("h", <<>>)>>))>>),
  T("binop", "Lua51", "expr", <<Local(<<"x">>, <<Bin("+", A, Bin("*", B, Cn))>>)>>),
  T("binop_par", "Lua51", "expr", <<Local(<<"x">>, <<Bin("*", Par(Bin("+", A, B)), Cn)>>)>>),
  \* a unary operator in parentheses as the base of an exponent: the parentheses matter wherever a comment sits
  T("pow_par_unary", "Lua51", "expr", <<Local(<<"x">>, <<Bin("^", Par(Un("-", A)), Two)>>)>>),
  T("mul_pow_par", "Lua51", "expr", <<Local(<<"x">>, <<Bin("*", A, Bin("^", Par(Un("-", B)), Two))>>)>>),
  T("concat", "Lua51", "expr", <<Local(<<"x">>, <<Bin("..", A, Bin("..", B, Cn))>>)>>),
  T("unop", "Lua51", "expr", <<Local(<<"x">>, <<Un("not", A), Un("-", B), Un("#", Cn)>>)>>),
  T("par_call", "Lua51", "expr", <<Local(<<"x">>, <<Par(CallF(<<>>))>>)>>),
  T("par_name", "Lua51", "expr", <<Local(<<"x">>, <<Par(A)>>)>>),
  T("index_chain", "Lua51", "expr", <<Local(<<"x">>, <<Chain(<<Name("t"), Leaf("dot", "k"), N("idx", "", <<One>>), CallArgs(<<A>>)>>)>>)>>),
  T("two_stmts", "Lua51", "stmt", <<Local(<<"x">>, <<One>>), Local(<<"y">>, <<Two>>)>>),
  T("semi", "Lua51", "stmt", <<Semi(Local(<<"x">>, <<One>>)), Semi(CallStmt(CallF(<<>>)))>>),
  T("func_goto", "Lua52", "func", <<Local(<<"g">>, <<Func(<<>>, Block(<<Leaf("goto", "top")>>))>>), Leaf("label", "top")>>),
  T("goto", "Lua52", "stmt", <<Leaf("label", "top"), Leaf("goto", "top")>>),
  T("attrib", "Lua54", "stmt", <<N("local", "=", <<N("names", "", <<N("lname", "x", <<Leaf("attrib", "const")>>)>>), Exprs(<<One>>)>>)>>),
  T("compound", "Luau", "luau", <<Compound("+=", Name("x"), One)>>),
  T("typed_local", "Luau", "luau", <<N("local", "=", <<N("names", "", <<N("lname", "x", <<Leaf("type", "T")>>)>>), Exprs(<<One>>)>>)>>),
  T("ifexp", "Luau", "luau", <<Local(<<"x">>, <<IfExp(A, B, Cn)>>)>>),
  T("cast", "Luau", "luau", <<Local(<<"x">>, <<Cast(A, "T")>>)>>),
  T("continue", "Luau", "luau", <<While(A, Block(<<Leaf("continue", "")>>))>>)
}

Init == /\ tmpl \in {c \in Catalogue : c.group \in Groups} /\ comments = <<>>

AddComment ==
  /\ Len(comments) < MaxComments
  /\ \E slot \in 0..NTok(tmpl.tree), kind \in Kinds :
        /\ (comments # <<>> => slot > comments[Len(comments)].slot)        \* ordered: no duplicates
        /\ comments' = Append(comments, [slot |-> slot, kind |-> kind, text |-> IF comments = <<>> THEN "C1" ELSE "C2"])
  /\ UNCHANGED tmpl

Next == AddComment
Spec == Init /\ [][Next]_vars

Case == [ tree |-> tmpl.tree,
          layout |-> [comments |-> comments],
          cfg |-> [syntax |-> tmpl.syntax],
          meta |-> [src |-> "Trivia", tmpl |-> tmpl.name, group |-> tmpl.group, ntok |-> NTok(tmpl.tree), comments |-> comments] ]

(* the bare templates are cases too (every option value and width is swept over them) *)
Emit == PrintT(<<"CASE", ToJson(Case)>>)
=============================================================================
