------------------------------ MODULE MC_Types ------------------------------
(***************************************************************************)
(* Generator of Luau type expressions with parentheses at every position     *)
(* (C02 / C05 for the type-parenthesis rule, luau.rs): a type is built by     *)
(* applying one constructor per step (parenthesise, optional, function,       *)
(* union / intersection on either side, array, generic) up to MaxDepth; every *)
(* state is printed in several positions.  The text is assembled here; what   *)
(* it means is decided by parsing input and output and comparing the          *)
(* structural type trees under LuaSyntax!Meaning (a tuple of one is a         *)
(* parenthesised type; unions and intersections are associative).             *)
(***************************************************************************)
EXTENDS Naturals, Sequences, TLC, Json

CONSTANTS Ctors, MaxDepth, Positions
VARIABLES ty, depth
vars == <<ty, depth>>

Apply(c, t) ==
  CASE c = "par"    -> "(" \o t \o ")"
    [] c = "opt"    -> t \o "?"
    [] c = "fn"     -> "() -> " \o t
    [] c = "fnarg"  -> "(" \o t \o ") -> nil"
    [] c = "unionl" -> t \o " | string"
    [] c = "unionr" -> "number | " \o t
    [] c = "interl" -> t \o " & Other"
    [] c = "arr"    -> "{ " \o t \o " }"
    [] c = "gen"    -> "Array<" \o t \o ">"
    [] c = "field"  -> "{ key: " \o t \o " }"
    [] c = "leadu"  -> "(| " \o t \o " | nil)"          \* a union written with a leading separator, in parentheses
    [] c = "leadi"  -> "(& " \o t \o " & Other)"

Init == ty \in {"number", "T"} /\ depth = 0
Step == depth < MaxDepth /\ \E c \in Ctors : ty' = Apply(c, ty) /\ depth' = depth + 1
Spec == Init /\ [][Step]_vars

Src(p) ==
  CASE p = "local" -> "local x: " \o ty \o " = nil\n"
    [] p = "decl"  -> "type X = " \o ty \o "\n"
    [] p = "param" -> "local function f(a: " \o ty \o "): " \o ty \o "\nend\n"
    [] p = "cast"  -> "local y = (x :: " \o ty \o ")\n"

Emit == \A p \in Positions :
  PrintT(<<"CASE", ToJson([src |-> Src(p), cfg |-> [syntax |-> "Luau"],
                           meta |-> [src |-> "Types", depth |-> depth, pos |-> p, sig |-> "types:" \o p]])>>)
=============================================================================
