--------------------------- MODULE MC_ConfigSearch ---------------------------
(***************************************************************************)
(* Generator + design-level check for configuration search (C15).  A case is *)
(* a behaviour: Init (no configuration files) -> Place* (at most MaxDev       *)
(* files: a toml of either/both names or an .editorconfig at a spine level, a  *)
(* toml in one of the four global locations) -> Options -> Targets.            *)
(***************************************************************************)
EXTENDS ConfigSearch, TLC, Json

CONSTANTS MaxDev, OptionSets, TargetSets
VARIABLES sc, ndev, targets, phase
vars == <<sc, ndev, targets, phase>>

NoLv == [toml |-> "none", ec |-> "none"]
Init == /\ sc = [lv |-> [i \in Levels |-> NoLv], xdg |-> FALSE, xdgs |-> FALSE, home |-> FALSE, homes |-> FALSE,
                 config_path |-> FALSE, search_parent |-> FALSE, no_ec |-> FALSE, override |-> FALSE]
        /\ ndev = 0 /\ targets = <<>> /\ phase = "place"

Place ==
  /\ phase = "place" /\ ndev < MaxDev
  /\ \/ \E i \in Levels, v \in {"stylua", "dot", "both"} :
          sc.lv[i].toml = "none" /\ sc' = [sc EXCEPT !.lv[i].toml = v]
     \/ \E i \in Levels, v \in {"plain", "root", "perfile"} :
          sc.lv[i].ec = "none" /\ sc' = [sc EXCEPT !.lv[i].ec = v]
     \/ \E g \in {"xdg", "xdgs", "home", "homes"} : ~sc[g] /\ sc' = [sc EXCEPT ![g] = TRUE]
  /\ ndev' = ndev + 1 /\ UNCHANGED <<targets, phase>>

Opts(o) == CASE o = "none" -> sc
             [] o = "config_path" -> [sc EXCEPT !.config_path = TRUE]
             [] o = "search_parent" -> [sc EXCEPT !.search_parent = TRUE]
             [] o = "no_ec" -> [sc EXCEPT !.no_ec = TRUE]
             [] o = "override" -> [sc EXCEPT !.override = TRUE]
             [] o = "search_parent+no_ec" -> [sc EXCEPT !.search_parent = TRUE, !.no_ec = TRUE]
             [] o = "config_path+override" -> [sc EXCEPT !.config_path = TRUE, !.override = TRUE]

F(l) == [kind |-> "file", level |-> l, alt |-> FALSE]
TargetsOf(t) ==
  CASE t = "f3" -> <<F(3)>> [] t = "f4" -> <<F(4)>> [] t = "f5" -> <<F(5)>>
    [] t = "f3f4" -> <<F(3), F(4)>> [] t = "f4f3" -> <<F(4), F(3)>> [] t = "f5f4" -> <<F(5), F(4)>> [] t = "f4f5" -> <<F(4), F(5)>>
    [] t = "f3f5" -> <<F(3), F(5)>> [] t = "f5f3" -> <<F(5), F(3)>> [] t = "f4f4" -> <<F(4), [kind |-> "file", level |-> 4, alt |-> TRUE]>>
    [] t = "f4af4" -> <<[kind |-> "file", level |-> 4, alt |-> TRUE], F(4)>>        \* the u-named file first
    [] t = "dir" -> <<[kind |-> "dirfile", level |-> 3, alt |-> FALSE], [kind |-> "dirfile", level |-> 4, alt |-> FALSE], [kind |-> "dirfile", level |-> 5, alt |-> FALSE]>>
    [] t = "stdin" -> <<[kind |-> "stdin", level |-> 3, alt |-> FALSE]>>
    [] t = "stdinpath" -> <<[kind |-> "stdinpath", level |-> 4, alt |-> FALSE]>>

Choose ==
  /\ phase = "place"
  /\ \E o \in OptionSets, t \in TargetSets : sc' = Opts(o) /\ targets' = TargetsOf(t)
  /\ phase' = "done" /\ UNCHANGED ndev

Next == Place \/ Choose
Spec == Init /\ [][Next]_vars

Case == [ sc |-> sc, targets |-> targets,
          expect |-> [k \in DOMAIN targets |-> ResolveA(sc, TargetLevel(targets[k]), IsAlt(targets[k]))],
          impl |-> ImplHistory(sc, targets, 1, EmptyCache) ]
Emit == phase = "done" => PrintT(<<"CASE", ToJson(Case)>>)
DesignRefines == phase = "done" => ImplRefines(sc, targets)
=============================================================================
