SPECIFICATION Spec
CONSTANTS
  Alpha = {"SQ", "DQ", "BS", "n", "1", "x", "LF", "z", "SP"}
  MaxLen = 5
INVARIANT Emit
INVARIANT DesignSafe
CHECK_DEADLOCK FALSE
