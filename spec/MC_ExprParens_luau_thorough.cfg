SPECIFICATION Spec
CONSTANTS
  BinOpsG = {"or", "and", "<", "==", "..", "+", "*", "^"}
  UnOpsG = {"-", "not", "#"}
  LeafKindsG = {"cast", "ifexp", "call", "vararg"}
  ContextsG = {"local", "return", "arg", "if", "compound", "ifexp_then", "ifexp_else", "tpos", "index"}
  MaxDev = 2
  MaxPar = 2
  Shapes = {"bb_l", "bb_r", "bu_l", "bu_r", "ub", "uu", "b", "u", "l"}
INVARIANT Emit
INVARIANT NoParensNoChange
CHECK_DEADLOCK FALSE
