----------------------------- MODULE SortRequires -----------------------------
(***************************************************************************)
(* C12: require sorting only permutes statements inside a require block.    *)
(* Facts (harness/src/stmts.rs sort_facts): `ins` / `outs` = top-level       *)
(* statements of input / output with class (require | getservice | other),   *)
(* NAME and its rank in byte order, a marker identifying the statement, a    *)
(* hash of its exact text, line gap / blank line / comment between it and    *)
(* the previous statement, directive lines, byte span.                       *)
(* Property layer: Fails(...).  Impl layer: ImplOrder = transcription of     *)
(* partition_nodes_into_groups + sort_by_key (sort_requires.rs:84-226).      *)
(***************************************************************************)
EXTENDS Naturals, Sequences, FiniteSets

Blk == INSTANCE Block

Member(s) == s.cls \in {"require", "getservice"}
N(ins) == Len(ins)
Recs(ins) == [i \in DOMAIN ins |-> [path |-> <<i>>, dirs |-> ins[i].dirs, kind |-> "stmt"]]
Ignored(ins, i) == Blk!OwnSkip(Recs(ins), i)
Outside(ins, i, rg, hasRange) == hasRange /\ Blk!InRange(ins[i], rg) = "outside"
MaybeOutside(ins, i, rg, hasRange) == hasRange /\ Blk!InRange(ins[i], rg) # "inside"

HasMarker(outs, m) == \E j \in DOMAIN outs : outs[j].marker = m
OutIdx(outs, m) == CHOOSE j \in DOMAIN outs : outs[j].marker = m

(* group boundaries between i-1 and i *)
CoarseBreak(ins, i) == i = 1 \/ ~Member(ins[i]) \/ ~Member(ins[i - 1]) \/ ins[i].cls # ins[i - 1].cls \/ ins[i].blank_before
FineBreak(ins, i)   == CoarseBreak(ins, i) \/ ins[i].line_gap > 1
RECURSIVE GroupLo(_, _, _)
GroupLo(ins, i, fine) == IF (IF fine THEN FineBreak(ins, i) ELSE CoarseBreak(ins, i)) THEN i ELSE GroupLo(ins, i - 1, fine)
RECURSIVE GroupHi(_, _, _)
GroupHi(ins, i, fine) == IF i = Len(ins) \/ (IF fine THEN FineBreak(ins, i + 1) ELSE CoarseBreak(ins, i + 1)) THEN i ELSE GroupHi(ins, i + 1, fine)
Group(ins, i, fine) == GroupLo(ins, i, fine)..GroupHi(ins, i, fine)

SortedRange(ins, outs, lo, hi) ==
  \* the statements now at output positions lo..hi are in NAME order, stable for equal names
  \A p, q \in lo..hi : p < q =>
     LET a == CHOOSE i \in DOMAIN ins : ins[i].marker = outs[p].marker
         b == CHOOSE i \in DOMAIN ins : ins[i].marker = outs[q].marker
     IN  ins[a].name_rank < ins[b].name_rank \/ (ins[a].name_rank = ins[b].name_rank /\ a < b)

Fails(ins, outs, enabled, rg, hasRange) ==
  LET CountIn(s, m) == Cardinality({k \in DOMAIN s : s[k].marker = m})
      bagEq == /\ Len(ins) = Len(outs)
               /\ (\A i \in DOMAIN ins : CountIn(ins, ins[i].marker) = CountIn(outs, ins[i].marker))
      unique == Cardinality({ins[k].marker : k \in DOMAIN ins}) = Len(ins)
  IN
  IF ~bagEq THEN {"not_a_permutation"}
  ELSE IF ~unique THEN {}          \* identical statements cannot be told apart: only the bag is judged

  ELSE IF ~enabled THEN (IF \E i \in DOMAIN ins : OutIdx(outs, ins[i].marker) # i THEN {"order_changed_with_option_off"} ELSE {})
  ELSE
   UNION {
     LET p == OutIdx(outs, ins[i].marker) IN
     (IF ~Member(ins[i]) /\ p # i THEN {"non_member_moved"} ELSE {}) \cup
     (IF Member(ins[i]) /\ p \notin Group(ins, i, FALSE) THEN {"left_its_group"} ELSE {}) \cup
     (IF Member(ins[i]) /\ p # i /\ (\E k \in Group(ins, i, TRUE) : Ignored(ins, k)) THEN {"ignored_group_sorted"} ELSE {}) \cup
     (IF Member(ins[i]) /\ p # i /\ (\E k \in Group(ins, i, TRUE) : Outside(ins, k, rg, hasRange)) THEN {"out_of_range_group_sorted"} ELSE {}) \cup
     (IF Outside(ins, i, rg, hasRange) /\ ~Ignored(ins, i) /\ outs[p].text # ins[i].text THEN {"out_of_range_text_changed"} ELSE {}) \cup
     (IF Ignored(ins, i) /\ outs[p].text # ins[i].text THEN {"ignored_text_changed"} ELSE {})
     : i \in DOMAIN ins } \cup
   \* every group that may be sorted comes out ordered by NAME (as one coarse group, or per fine group)
   UNION {
     LET c == Group(ins, i, FALSE)
         free == ~\E k \in c : Ignored(ins, k) \/ MaybeOutside(ins, k, rg, hasRange)
         clo == GroupLo(ins, i, FALSE)  chi == GroupHi(ins, i, FALSE)
     IN IF Member(ins[i]) /\ i = clo /\ free
           /\ ~SortedRange(ins, outs, clo, chi)
           /\ ~(\A k \in c : k = GroupLo(ins, k, TRUE) =>
                    /\ (\A m \in Group(ins, k, TRUE) : OutIdx(outs, ins[m].marker) \in Group(ins, k, TRUE))
                    /\ SortedRange(ins, outs, GroupLo(ins, k, TRUE), GroupHi(ins, k, TRUE)))
        THEN {"group_not_sorted"} ELSE {}
     : i \in DOMAIN ins }

(***************************************************************************)
(* Impl: what the code does.  Groups break on a non-require, a kind change, *)
(* or a line gap > 1; a group is skipped when a member carries its own      *)
(* `stylua: ignore`, lies in an ignore start/end region, or is not in range. *)
(***************************************************************************)
ImplSkip(ins, i, rg, hasRange) ==
  Ignored(ins, i) \/ (hasRange /\ Blk!InRange(ins[i], rg) # "inside")
ImplBreak(ins, i) == i = 1 \/ ~Member(ins[i]) \/ ~Member(ins[i - 1]) \/ ins[i].cls # ins[i - 1].cls \/ ins[i].line_gap > 1
RECURSIVE ILo(_, _)
ILo(ins, i) == IF ImplBreak(ins, i) THEN i ELSE ILo(ins, i - 1)
RECURSIVE IHi(_, _)
IHi(ins, i) == IF i = Len(ins) \/ ImplBreak(ins, i + 1) THEN i ELSE IHi(ins, i + 1)
(* predicted output position of input statement i *)
ImplPos(ins, i, rg, hasRange) ==
  IF ~Member(ins[i]) THEN i
  ELSE LET g == ILo(ins, i)..IHi(ins, i) IN
       IF \E k \in g : ImplSkip(ins, k, rg, hasRange) THEN i
       ELSE ILo(ins, i) + Cardinality({k \in g : ins[k].name_rank < ins[i].name_rank \/ (ins[k].name_rank = ins[i].name_rank /\ k < i)})
Drift(ins, outs, enabled, rg, hasRange) ==
  enabled /\ Len(ins) = Len(outs) /\ (\A i \in DOMAIN ins : HasMarker(outs, ins[i].marker))
  /\ Cardinality({ins[k].marker : k \in DOMAIN ins}) = Len(ins)
  /\ \E i \in DOMAIN ins : OutIdx(outs, ins[i].marker) # ImplPos(ins, i, rg, hasRange)
=============================================================================
