------------------------------- MODULE Strings -------------------------------
(***************************************************************************)
(* String and number literals: what a spelling DENOTES (property layer,     *)
(* C04), which quote the options allow (C11), and a transcription of what   *)
(* StyLua does to a quoted string (Impl layer, general.rs:122-196).         *)
(*                                                                          *)
(* A string body is a sequence of symbols from the escape-relevant alphabet *)
(*   SQ ' DQ " BS \ n 0 1 9 x u LB { RB } z a q LF CR SP EA(e-acute)        *)
(* Decode gives the byte sequence the literal denotes.                      *)
(***************************************************************************)
EXTENDS Naturals, Sequences, FiniteSets

Alphabet == {"SQ", "DQ", "BS", "n", "0", "1", "9", "x", "u", "LB", "RB", "z", "a", "q", "LF", "CR", "SP", "EA"}

Byte(c) == CASE c = "SQ" -> 39 [] c = "DQ" -> 34 [] c = "BS" -> 92 [] c = "n" -> 110
             [] c = "0" -> 48 [] c = "1" -> 49 [] c = "9" -> 57 [] c = "x" -> 120 [] c = "u" -> 117
             [] c = "LB" -> 123 [] c = "RB" -> 125 [] c = "z" -> 122 [] c = "a" -> 97 [] c = "q" -> 113
             [] c = "LF" -> 10 [] c = "CR" -> 13 [] c = "SP" -> 32 [] c = "EA" -> 0
RawBytes(c) == IF c = "EA" THEN <<195, 169>> ELSE <<Byte(c)>>

IsHex(c) == c \in {"0", "1", "9", "a"}
IsDec(c) == c \in {"0", "1", "9"}
HexVal(c) == CASE c = "0" -> 0 [] c = "1" -> 1 [] c = "9" -> 9 [] c = "a" -> 10
IsWs(c) == c \in {"SP", "LF", "CR"}

At(s, i) == IF i <= Len(s) THEN s[i] ELSE "END"

RECURSIVE SkipWs(_, _)
SkipWs(s, i) == IF i <= Len(s) /\ IsWs(s[i]) THEN SkipWs(s, i + 1) ELSE i

Utf8(cp) == IF cp < 128 THEN <<cp>>
            ELSE IF cp < 2048 THEN <<192 + (cp \div 64), 128 + (cp % 64)>>
            ELSE IF cp < 65536 THEN <<224 + (cp \div 4096), 128 + ((cp \div 64) % 64), 128 + (cp % 64)>>
            ELSE <<240 + (cp \div 262144), 128 + ((cp \div 4096) % 64), 128 + ((cp \div 64) % 64), 128 + (cp % 64)>>

(* hex digits from position i: <<value, next position, count>> *)
RECURSIVE HexRun(_, _, _, _)
HexRun(s, i, v, n) == IF i <= Len(s) /\ IsHex(s[i]) THEN HexRun(s, i + 1, v * 16 + HexVal(s[i]), n + 1) ELSE <<v, i, n>>

(* up to three decimal digits *)
RECURSIVE DecRun(_, _, _, _)
DecRun(s, i, v, n) == IF n < 3 /\ i <= Len(s) /\ IsDec(s[i]) THEN DecRun(s, i + 1, v * 10 + HexVal(s[i]), n + 1) ELSE <<v, i, n>>

(***************************************************************************)
(* Decode of a quoted body (Lua 5.1-5.4 / Luau union reading): an unknown    *)
(* escape denotes the escaped character; every raw character denotes        *)
(* itself.                                                                   *)
(***************************************************************************)
RECURSIVE Dec(_, _)
Dec(s, i) ==
  IF i > Len(s) THEN <<>>
  ELSE IF s[i] # "BS" THEN RawBytes(s[i]) \o Dec(s, i + 1)
  ELSE IF i = Len(s) THEN <<92>>
  ELSE LET e == s[i + 1] IN
    CASE e = "n"  -> <<10>> \o Dec(s, i + 2)
      [] e = "a"  -> <<7>> \o Dec(s, i + 2)
      [] e \in {"BS", "SQ", "DQ"} -> <<Byte(e)>> \o Dec(s, i + 2)
      [] e = "LF" -> <<10>> \o Dec(s, IF At(s, i + 2) = "CR" THEN i + 3 ELSE i + 2)
      [] e = "CR" -> <<10>> \o Dec(s, IF At(s, i + 2) = "LF" THEN i + 3 ELSE i + 2)
      [] e = "z"  -> Dec(s, SkipWs(s, i + 2))
      [] e = "x"  -> IF IsHex(At(s, i + 2)) /\ IsHex(At(s, i + 3))
                     THEN <<16 * HexVal(s[i + 2]) + HexVal(s[i + 3])>> \o Dec(s, i + 4)
                     ELSE <<120>> \o Dec(s, i + 2)
      [] IsDec(e) -> LET r == DecRun(s, i + 1, 0, 0) IN
                     (IF r[1] > 255 THEN <<r[1] % 256, 255>> ELSE <<r[1]>>) \o Dec(s, r[2])
      [] e = "u"  -> IF At(s, i + 2) = "LB"
                     THEN LET r == HexRun(s, i + 3, 0, 0) IN
                          IF r[3] > 0 /\ At(s, r[2]) = "RB" THEN Utf8(r[1]) \o Dec(s, r[2] + 1)
                          ELSE <<117>> \o Dec(s, i + 2)
                     ELSE <<117>> \o Dec(s, i + 2)
      [] OTHER    -> RawBytes(e) \o Dec(s, i + 2)

Decode(s) == Dec(s, 1)

(* Validity of a quoted body as the specification sees it (lenient reading: Lua 5.1 / Luau).
   The real lexer decides the domain; disagreements are counted, not errors. *)
RECURSIVE ValidFrom(_, _, _)
ValidFrom(q, s, i) ==
  IF i > Len(s) THEN TRUE
  ELSE IF s[i] = q \/ s[i] \in {"LF", "CR"} THEN FALSE
  ELSE IF s[i] # "BS" THEN ValidFrom(q, s, i + 1)
  ELSE IF i = Len(s) THEN FALSE
  ELSE LET e == s[i + 1] IN
    CASE e = "x" -> IsHex(At(s, i + 2)) /\ IsHex(At(s, i + 3)) /\ ValidFrom(q, s, i + 4)
      [] e = "u" -> /\ At(s, i + 2) = "LB"
                    /\ LET r == HexRun(s, i + 3, 0, 0) IN r[3] > 0 /\ At(s, r[2]) = "RB" /\ ValidFrom(q, s, r[2] + 1)
      [] IsDec(e) -> LET r == DecRun(s, i + 1, 0, 0) IN r[1] <= 255 /\ ValidFrom(q, s, r[2])
      [] e = "z" -> ValidFrom(q, s, SkipWs(s, i + 2))
      [] e = "LF" -> ValidFrom(q, s, IF At(s, i + 2) = "CR" THEN i + 3 ELSE i + 2)
      [] e = "CR" -> ValidFrom(q, s, IF At(s, i + 2) = "LF" THEN i + 3 ELSE i + 2)
      [] OTHER -> ValidFrom(q, s, i + 2)
Valid(q, s) == ValidFrom(q, s, 1)

(* ---------------- C11: which quote may be used ---------------- *)
Count(s, c) == Cardinality({i \in DOMAIN s : s[i] = c})
Styles == {"AutoPreferDouble", "AutoPreferSingle", "ForceDouble", "ForceSingle"}
(* the quote the rule demands, given the numbers of ' and " characters in the body *)
RuleQuote(style, nsq, ndq) ==
  CASE style = "ForceDouble" -> "DQ"
    [] style = "ForceSingle" -> "SQ"
    [] style = "AutoPreferDouble" -> IF nsq < ndq THEN "SQ" ELSE "DQ"
    [] style = "AutoPreferSingle" -> IF ndq < nsq THEN "DQ" ELSE "SQ"

(* ---------------- Impl: what format_token does to a quoted string ---------------- *)
ChooseQuote(style, s) == RuleQuote(style, Count(s, "SQ"), Count(s, "DQ"))     \* get_quote_to_use (general.rs:51)

Unnecessary(e) == e \notin {"LF", "CR", "DQ", "SQ", "0", "1", "9", "BS", "a", "n", "x", "u", "z"}
QuoteOut(c, qo) == IF c = qo THEN <<"BS", c>> ELSE <<c>>

RECURSIVE Rw(_, _, _)          \* leftmost-first tiling of  \\?(["'])|\\([\S\s])
Rw(s, i, qo) ==
  IF i > Len(s) THEN <<>>
  ELSE IF s[i] \in {"SQ", "DQ"} THEN QuoteOut(s[i], qo) \o Rw(s, i + 1, qo)
  ELSE IF s[i] = "BS" /\ i < Len(s)
       THEN LET e == s[i + 1] IN
            IF e \in {"SQ", "DQ"} THEN QuoteOut(e, qo) \o Rw(s, i + 2, qo)
            ELSE IF Unnecessary(e) THEN <<e>> \o Rw(s, i + 2, qo)
            ELSE <<"BS", e>> \o Rw(s, i + 2, qo)
  ELSE <<s[i]>> \o Rw(s, i + 1, qo)

ImplRewrite(style, s) == LET qo == ChooseQuote(style, s) IN [q |-> qo, body |-> Rw(s, 1, qo)]

(* Design-level obligation: the rewrite keeps the denoted bytes and stays a valid literal *)
RewriteSafe(q, s) ==
  Valid(q, s) => \A st \in Styles :
     LET r == ImplRewrite(st, s) IN Decode(r.body) = Decode(s) /\ Valid(r.q, r.body)

(* ---------------- long-bracket strings ---------------- *)
(* body symbols: RBK ] EQ = LBK [ LF CR a ; first newline dropped, newline sequences = LF *)
RECURSIVE LongFrom(_, _)
LongFrom(s, i) ==
  IF i > Len(s) THEN <<>>
  ELSE CASE s[i] = "CR" -> <<10>> \o LongFrom(s, IF At(s, i + 1) = "LF" THEN i + 2 ELSE i + 1)
         [] s[i] = "LF" -> <<10>> \o LongFrom(s, IF At(s, i + 1) = "CR" THEN i + 2 ELSE i + 1)
         [] s[i] = "RBK" -> <<93>> \o LongFrom(s, i + 1)
         [] s[i] = "LBK" -> <<91>> \o LongFrom(s, i + 1)
         [] s[i] = "EQ" -> <<61>> \o LongFrom(s, i + 1)
         [] OTHER -> <<97>> \o LongFrom(s, i + 1)
DecodeLong(s) ==
  LET start == IF At(s, 1) = "CR" THEN (IF At(s, 2) = "LF" THEN 3 ELSE 2)
               ELSE IF At(s, 1) = "LF" THEN (IF At(s, 2) = "CR" THEN 3 ELSE 2)
               ELSE 1
  IN LongFrom(s, start)
=============================================================================
