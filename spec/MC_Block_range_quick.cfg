SPECIFICATION Spec
CONSTANTS
  ItemKinds = {"local", "call", "pcall", "do", "func", "afunc"}
  MaxTop = 2
  MaxDev = 2
  DevTypes = {"semi", "dir", "tail", "range"}
  WithReturn = FALSE
INVARIANT Emit
CHECK_DEADLOCK FALSE
