SPECIFICATION Spec
CONSTANTS
  ItemKinds = {"local", "call", "pcall", "assign", "do", "if", "func", "table", "repeat", "compound", "ifret"}
  MaxTop = 2
  MaxDev = 2
  DevTypes = {"semi", "dir", "cmt", "tail"}
  WithReturn = FALSE
INVARIANT Emit
CHECK_DEADLOCK FALSE
