------------------------------ MODULE MC_Calls ------------------------------
(***************************************************************************)
(* Generator for call shapes (C11 call_parentheses / space_after; C06 and   *)
(* C01-C03 for the argument-list layout heuristics): argument lists over     *)
(* ArgKinds up to MaxArgs, call form (parentheses or string/table sugar),    *)
(* what follows the call (nothing, index, method call, another call), the    *)
(* position of the call, and a function definition next to it.               *)
(***************************************************************************)
EXTENDS LuaSyntax, TLC, Json

CONSTANTS ArgKinds, MaxArgs, Suffixes, Positions, TripleKinds
VARIABLES args, form, suffix, pos, phase
vars == <<args, form, suffix, pos, phase>>

RetBody == Block(<<Return(<<Num("1")>>)>>)
Arg(k, i) ==
  CASE k = "name"  -> Name("arg" \o ToString(i))
    [] k = "str"   -> Str("text" \o ToString(i))
    [] k = "num"   -> Num(ToString(i))
    [] k = "tbl"   -> Table(<<FName("key", Num("1")), FPos(Name("elem"))>>)
    [] k = "tblfn" -> Table(<<FName("callback", Func(<<>>, RetBody))>>)
    [] k = "fn"    -> Func(<<"p">>, RetBody)
    [] k = "call"  -> CallOf("inner", <<Name("z")>>)
    [] k = "pstr"  -> Par(Str("wrapped"))
    [] k = "ptbl"  -> Par(Table(<<FPos(Num("1"))>>))

ArgLists ==
  {<<>>} \cup {<<a>> : a \in ArgKinds} \cup
  (IF MaxArgs >= 2 THEN {<<a, b>> : a \in ArgKinds, b \in ArgKinds} ELSE {}) \cup
  (IF MaxArgs >= 3 THEN {<<a, b, c>> : a \in TripleKinds, b \in TripleKinds, c \in TripleKinds} ELSE {})

Init == args \in ArgLists /\ form = "paren" /\ suffix = "none" /\ pos = "stmt" /\ phase = "args"
Shape ==
  /\ phase = "args"
  /\ \E f \in {"paren", "sugar"}, s \in Suffixes, p \in Positions :
        /\ (f = "sugar" => Len(args) = 1 /\ args[1] \in {"str", "tbl", "tblfn"})
        /\ (p = "stmt" => s \in {"none", "call", "mcall"})          \* a statement must end in a call
        /\ form' = f /\ suffix' = s /\ pos' = p
  /\ phase' = "done" /\ UNCHANGED args
Next == Shape
Spec == Init /\ [][Next]_vars

CallNode ==
  LET as == [i \in DOMAIN args |-> Arg(args[i], i)]
      c  == IF form = "paren" THEN CallArgs(as)
            ELSE N("call", IF args[1] = "str" THEN "str" ELSE "table", as)
      sfx == CASE suffix = "none" -> <<>>
               [] suffix = "dot" -> <<Leaf("dot", "field")>>
               [] suffix = "idx" -> <<N("idx", "", <<Num("1")>>)>>
               [] suffix = "mcall" -> <<N("mcall", "method", <<CallArgs(<<>>)>>)>>
               [] suffix = "call" -> <<CallArgs(<<Name("y")>>)>>
  IN Chain(<<Name("target"), c>> \o sfx)

Program ==
  LET def == FunctionDecl("defined", <<"p">>, Block(<<CallStmt(CallOf("print", <<Name("p")>>))>>)) IN
  CASE pos = "stmt"  -> Block(<<def, CallStmt(CallNode)>>)
    [] pos = "local" -> Block(<<def, Local(<<"result">>, <<CallNode>>)>>)
    [] pos = "arg"   -> Block(<<def, CallStmt(CallOf("outer", <<Name("first"), CallNode>>))>>)
    [] pos = "ret"   -> Block(<<LocalFunction("wrapper", <<>>, Block(<<Return(<<CallNode>>)>>))>>)

Case == [ tree |-> Program, layout |-> [profile |-> "spaced"], cfg |-> [syntax |-> "Lua51"],
          meta |-> [src |-> "Calls", args |-> args, form |-> form, suffix |-> suffix, pos |-> pos] ]
Emit == phase = "done" => PrintT(<<"CASE", ToJson(Case)>>)
=============================================================================
