SPECIFICATION Spec
CONSTANTS
  LAlpha = {"RBK", "EQ", "LBK", "LF", "CR", "a"}
  LMaxLen = 4
  MaxLevel = 2
INVARIANT Emit
CHECK_DEADLOCK FALSE
