------------------------------ MODULE Selection ------------------------------
(***************************************************************************)
(* C16: exactly the selected files are processed, each once.                *)
(* A fixed universe of files in a small tree (the working directory is the   *)
(* root):                                                                    *)
(*   a.lua   src/a.lua   src/b.lua   src/vendor/v.lua   src/vendor/deep/w.lua *)
(*   src/c.luau   src/notes.txt   lib/d.lua   .hidden.lua   .hid/h.lua       *)
(* `.styluaignore` files at the root and/or in src with patterns from a      *)
(* small language (gitignore semantics):                                     *)
(*   name:<n>   dir:<d>/   ext:*.<e>   anch:/<n>   and their negations       *)
(* Arguments: directories and files, possibly overlapping or repeated.       *)
(* Selected(f) is the documented behaviour (README): directory traversal      *)
(* selects files matching the default globs, not hidden (unless              *)
(* --allow-hidden), not ignored; an explicitly named file is formatted        *)
(* regardless unless --respect-ignores.                                      *)
(***************************************************************************)
EXTENDS Naturals, Sequences, FiniteSets

F(p, d, n, e) == [path |-> p, dir |-> d, name |-> n, ext |-> e]
Universe == {
  F("a.lua", <<>>, "a.lua", "lua"),
  F("src/b.lua", <<"src">>, "b.lua", "lua"),
  F("src/a.lua", <<"src">>, "a.lua", "lua"),       \* same name as a.lua one level down: distinct files whose spellings share components
  F("src/vendor/v.lua", <<"src", "vendor">>, "v.lua", "lua"),
  F("src/vendor/deep/w.lua", <<"src", "vendor", "deep">>, "w.lua", "lua"),
  F("src/c.luau", <<"src">>, "c.luau", "luau"),
  F("src/notes.txt", <<"src">>, "notes.txt", "txt"),
  F("lib/d.lua", <<"lib">>, "d.lua", "lua"),
  F(".hidden.lua", <<>>, ".hidden.lua", "lua"),
  F(".a.lua", <<>>, ".a.lua", "lua"),              \* a hidden sibling whose name differs from a.lua only by the dot

  F(".hid/h.lua", <<".hid">>, "h.lua", "lua") }

Max2(a, b) == IF a > b THEN a ELSE b
IsPrefix(p, q) == Len(p) <= Len(q) /\ \A i \in 1..Len(p) : p[i] = q[i]
Hidden(f, from) ==       \* a component below the walk root starts with a dot
  f.name \in {".hidden.lua", ".a.lua"} \/ \E i \in (Len(from) + 1)..Len(f.dir) : f.dir[i] = ".hid"

(* ---- gitignore semantics for the pattern language ---- *)
(* pat = [k |-> "name"|"dir"|"ext"|"anch", v |-> value, neg |-> BOOLEAN]; base = directory of the ignore file *)
PatMatches(pat, f, base) ==
  /\ IsPrefix(base, f.dir)
  /\ CASE pat.k = "name" -> f.name = pat.v
       [] pat.k = "ext"  -> f.ext = pat.v
       [] pat.k = "anch" -> f.dir = base /\ f.name = pat.v
       [] pat.k = "dir"  -> \E i \in (Len(base) + 1)..Len(f.dir) : f.dir[i] = pat.v
DirExcluded(pats, f, base) ==     \* a parent directory is excluded: nothing below can be re-included
  \E i \in DOMAIN pats : pats[i].k = "dir" /\ ~pats[i].neg /\ PatMatches(pats[i], f, base)
(* decision of one ignore file: "ignore" | "include" | "none" (last matching pattern wins) *)
Decide(pats, f, base) ==
  IF DirExcluded(pats, f, base) THEN "ignore"
  ELSE LET ms == {i \in DOMAIN pats : PatMatches(pats[i], f, base)} IN
       IF ms = {} THEN "none"
       ELSE LET last == CHOOSE i \in ms : \A j \in ms : j <= i IN
            IF pats[last].neg THEN "include" ELSE "ignore"
(* ignore files: sc.ig_root (base <<>>), sc.ig_src (base <<"src">>); the deeper file has priority *)
Ignored(sc, f) ==
  LET dsrc == IF IsPrefix(<<"src">>, f.dir) THEN Decide(sc.ig_src, f, <<"src">>) ELSE "none"
      droot == Decide(sc.ig_root, f, <<>>)
  IN \/ DirExcluded(sc.ig_root, f, <<>>)
     \/ (IsPrefix(<<"src">>, f.dir) /\ DirExcluded(sc.ig_src, f, <<"src">>))
     \/ dsrc = "ignore"
     \/ (dsrc = "none" /\ droot = "ignore")

DefaultGlob(f) == f.ext \in {"lua", "luau"}

(* ---- -g / --glob lists (README "Glob Filtering"): the same pattern language read the other way round - a plain *)
(* pattern selects, `!pattern` excludes, the last matching pattern decides, and a file matched by no pattern is  *)
(* selected only when the list holds no selecting pattern at all.  kind "under" = `<dir>/**`.  An excluded        *)
(* directory (`!vendor/`) takes everything below it out.  With no list the default globs apply.                  *)
GlobMatches(pat, f) ==
  CASE pat.k = "under" -> Len(f.dir) >= 1 /\ f.dir[1] = pat.v
    [] pat.k = "dir"   -> FALSE                       \* matches directories only; see GlobDirExcluded
    [] OTHER           -> PatMatches(pat, f, <<>>)
GlobDirExcluded(gs, f) == \E i \in DOMAIN gs : gs[i].k = "dir" /\ gs[i].neg /\ PatMatches(gs[i], f, <<>>)
GlobOK(sc, f) ==
  LET gs == IF "globs" \in DOMAIN sc THEN sc.globs ELSE <<>> IN
  IF gs = <<>> THEN DefaultGlob(f)
  ELSE IF GlobDirExcluded(gs, f) THEN FALSE
  ELSE LET ms == {i \in DOMAIN gs : GlobMatches(gs[i], f)} IN
       IF ms = {} THEN \A i \in DOMAIN gs : gs[i].neg
       ELSE LET last == CHOOSE i \in ms : \A j \in ms : j <= i IN ~gs[last].neg

(* an argument: [kind |-> "dir"|"file", path, dir (components)]; a file argument spelled through `..` carries the *)
(* path of the file it denotes in the extra field `file` (`src/../a.lua` denotes a.lua)                          *)
Target(a) == IF "file" \in DOMAIN a THEN a.file ELSE a.path
UnderDir(f, a) == IsPrefix(a.dir, f.dir)
SelectedBy(sc, f, a) ==
  IF a.kind = "file"
  THEN Target(a) = f.path /\ (sc.respect => (~Ignored(sc, f) /\ GlobOK(sc, f)))
  ELSE /\ UnderDir(f, a) /\ GlobOK(sc, f) /\ ~Ignored(sc, f)
       /\ (sc.allow_hidden \/ ~Hidden(f, a.dir))
Selected(sc, f) == \E i \in DOMAIN sc.args : SelectedBy(sc, f, sc.args[i])

(* Tolerance: a directory named explicitly although it lies inside an excluded directory.  The README says
   explicit *files* are formatted regardless; for an explicit ignored *directory* it says nothing, and
   the walker never prunes its own root.  Files that are excluded ONLY because a component at or above
   the argument matches a directory pattern may therefore come out either way. *)
PatMatchesBelow(pat, f, base, depth) ==
  IF pat.k = "dir" THEN IsPrefix(base, f.dir) /\ \E i \in (Max2(Len(base), depth) + 1)..Len(f.dir) : f.dir[i] = pat.v
  ELSE PatMatches(pat, f, base)
DecideBelow(pats, f, base, depth) ==
  IF \E i \in DOMAIN pats : pats[i].k = "dir" /\ ~pats[i].neg /\ PatMatchesBelow(pats[i], f, base, depth) THEN "ignore"
  ELSE LET ms == {i \in DOMAIN pats : PatMatchesBelow(pats[i], f, base, depth)} IN
       IF ms = {} THEN "none"
       ELSE LET last == CHOOSE i \in ms : \A j \in ms : j <= i IN IF pats[last].neg THEN "include" ELSE "ignore"
IgnoredBelow(sc, f, depth) ==
  LET dsrc == IF IsPrefix(<<"src">>, f.dir) THEN DecideBelow(sc.ig_src, f, <<"src">>, depth) ELSE "none"
      droot == DecideBelow(sc.ig_root, f, <<>>, depth)
  IN dsrc = "ignore" \/ (dsrc = "none" /\ droot = "ignore")
(* the same tolerance for a directory excluded by a `!dir/` glob and then named explicitly *)
GlobOKBelow(sc, f, depth) ==
  LET gs == IF "globs" \in DOMAIN sc THEN sc.globs ELSE <<>>
      rest == SelectSeq(gs, LAMBDA g : ~(g.k = "dir" /\ g.neg /\ ~PatMatchesBelow(g, f, <<>>, depth)))
  IN GlobOK([sc EXCEPT !.globs = IF rest = <<>> /\ gs # <<>> THEN <<[k |-> "dir", v |-> "?", neg |-> TRUE]>> ELSE rest], f)
MaybeSelected(sc, f) ==
  \E i \in DOMAIN sc.args :
     LET a == sc.args[i] IN
     a.kind = "dir" /\ UnderDir(f, a) /\ GlobOKBelow(sc, f, Len(a.dir)) /\ (sc.allow_hidden \/ ~Hidden(f, a.dir))
     /\ ~IgnoredBelow(sc, f, Len(a.dir))
MaybeSet(sc) == {f.path : f \in {g \in Universe : MaybeSelected(sc, g)}}
SelectedSet(sc) == {f.path : f \in {g \in Universe : Selected(sc, g)}}
=============================================================================
