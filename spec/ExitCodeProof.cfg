SPECIFICATION Spec
INVARIANT Inv
PROPERTY Monotone
CHECK_DEADLOCK FALSE
