SPECIFICATION Spec
CONSTANTS
  ItemKinds = {"local", "pcall", "if", "func", "ifret"}
  MaxTop = 3
  MaxDev = 2
  DevTypes = {"semi", "dir", "cmt", "tail"}
  WithReturn = FALSE
INVARIANT Emit
CHECK_DEADLOCK FALSE
