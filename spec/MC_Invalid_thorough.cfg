SPECIFICATION ISpec
CONSTANTS
  Kinds = {"line"}
  MaxComments = 1
  Groups = {"stmt", "call", "expr", "block", "func", "table", "luau"}
  Junk = {" ( ", " end ", " = ", " ] "}
  RangeCodes = {"none", "empty0", "empty5", "inverted", "beyond", "whole"}
INVARIANT IEmit
CHECK_DEADLOCK FALSE
