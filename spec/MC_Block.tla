------------------------------ MODULE MC_Block ------------------------------
(***************************************************************************)
(* Generator for statement sequences with ignore directives, semicolons,    *)
(* trailing comments and range markers (C08, C09; also C01 C02 C03 C06 C10). *)
(* A case is a behaviour: Init (a program skeleton: up to MaxTop top-level   *)
(* items, containers holding simple statements) -> AddDev* (at most MaxDev   *)
(* deviations, in canonical order): a `;` on a statement, a directive        *)
(* comment in front of a statement, a comment after a statement / before its *)
(* `;`, one pair of range markers.  Every state is printed as a case.        *)
(* Statements are addressed by preorder index (0-based), which is how the    *)
(* renderer and the harness resolve them.                                    *)
(***************************************************************************)
EXTENDS LuaSyntax, TLC, Json

CONSTANTS ItemKinds, MaxTop, MaxDev, DevTypes, WithReturn

VARIABLES prog, devs
vars == <<prog, devs>>

Simple(k, n) ==
  CASE k = "local"  -> Local(<<"v" \o n>>, <<Num("1")>>)
    [] k = "call"   -> CallStmt(CallOf("f", <<Name("a" \o n)>>))
    [] k = "pcall"  -> CallStmt(Chain(<<Par(Name("g")), CallArgs(<<Name("a" \o n)>>)>>))
    [] k = "assign" -> Assign(<<Name("w" \o n)>>, <<Bin("+", Name("x"), Num("1"))>>)
    [] k = "table"  -> Local(<<"t" \o n>>, <<Table(<<FName("p", Num("1")), FName("q", Num("2"))>>)>>)
    [] k = "compound" -> Compound("+=", Name("w" \o n), Name("y"))
    [] k = "return" -> Return(<<Name("r")>>)

Inner(k) == CASE k = "do" -> <<"local", "call">> [] k = "repeat" -> <<"call">> [] k = "if" -> <<"assign">> [] k = "func" -> <<"local", "return">>
              [] k = "afunc" -> <<"local", "return">> [] k = "ifret" -> <<"return">> [] OTHER -> <<>>
IsContainer(k) == k \in {"do", "if", "func", "repeat", "afunc", "ifret"}
Size(k) == 1 + Len(Inner(k))

RECURSIVE Base(_, _)
Base(p, j) == IF j = 1 THEN 0 ELSE Base(p, j - 1) + Size(p[j - 1])
NStmts(p) == Base(p, Len(p) + 1)

(* statement k (preorder) is a `;` candidate / which top item and inner position it is *)
TopOf(p, k) == CHOOSE j \in DOMAIN p : Base(p, j) <= k /\ k < Base(p, j) + Size(p[j])
InnerPos(p, k) == k - Base(p, TopOf(p, k))          \* 0 = the item itself

HasDev(ds, t, k) == \E i \in DOMAIN ds : ds[i].t = t /\ ds[i].s = k
Wrap(node, ds, k) == IF HasDev(ds, "semi", k) THEN Semi(node) ELSE node

ItemTree(p, ds, j) ==
  LET k == p[j]  b == Base(p, j)
      inner == [m \in DOMAIN Inner(k) |-> Wrap(Simple(Inner(k)[m], "i"), ds, b + m)]
  IN  Wrap(CASE k = "do"   -> Do(Block(inner))
             [] k = "if"   -> If(Name("c"), Block(inner))
             [] k = "ifret" -> If(Name("c"), Block(inner))          \* an if guard: the body is a lone `return`
             [] k = "func" -> LocalFunction("h", <<>>, Block(inner))
             [] k = "repeat" -> Repeat(Block(inner), Name("done"))
             \* an anonymous function as the value of a local: a range can hold the whole `function .. end` without holding the statement
             [] k = "afunc" -> Local(<<"cb">>, <<Func(<<"p", "q">>, Block(inner))>>)
             [] OTHER      -> Simple(k, "t"), ds, b)

Programs == UNION {[1..n -> ItemKinds] : n \in 1..MaxTop}
FullProg(p) == IF WithReturn THEN p \o <<"return">> ELSE p

Stmts(p) == 0..(NStmts(p) - 1)
DirKinds == {"ignore", "start", "end", "ignore_ml", "ignore_bc"}
StartMarks(p) == {"before:" \o ToString(k) : k \in Stmts(p)} \cup {"infirst:" \o ToString(k) : k \in Stmts(p)} \cup {"none", "0"}
EndMarks(p) == {"after:" \o ToString(k) : k \in Stmts(p)} \cup {"last:" \o ToString(k) : k \in Stmts(p)}
               \cup {"inlast:" \o ToString(k) : k \in Stmts(p)} \cup {"none", "len", "max", "0"}

DevOptions(p) ==
  (IF "semi" \in DevTypes THEN {[t |-> "semi", s |-> k, x |-> "", y |-> ""] : k \in Stmts(p)} ELSE {}) \cup
  (IF "dir" \in DevTypes THEN {[t |-> "dir", s |-> k, x |-> d, y |-> ""] : k \in Stmts(p), d \in DirKinds} ELSE {}) \cup
  (IF "cmt" \in DevTypes THEN {[t |-> "cmt", s |-> k, x |-> w, y |-> ""] : k \in Stmts(p), w \in {"after", "before_semi"}} ELSE {}) \cup
  \* an untidy end of file: extra blank lines, or an indented comment with trailing spaces and blank lines after it
  (IF "tail" \in DevTypes THEN {[t |-> "tail", s |-> NStmts(p), x |-> w, y |-> ""] : w \in {"blank", "comment"}} ELSE {}) \cup
  (IF "range" \in DevTypes THEN {[t |-> "range", s |-> 0, x |-> a, y |-> b] : a \in StartMarks(p), b \in EndMarks(p)} \ {[t |-> "range", s |-> 0, x |-> "none", y |-> "none"]} ELSE {})

TypeRank(t) == CASE t = "semi" -> 1 [] t = "dir" -> 2 [] t = "cmt" -> 3 [] t = "tail" -> 4 [] t = "range" -> 5
XRank(x) == CASE x = "ignore" -> 1 [] x = "start" -> 2 [] x = "end" -> 3 [] x = "ignore_ml" -> 4 [] x = "ignore_bc" -> 5 [] x = "after" -> 1 [] x = "before_semi" -> 2 [] x = "blank" -> 1 [] x = "comment" -> 2 [] OTHER -> 0
Rank(d) == TypeRank(d.t) * 1000 + d.s * 10 + XRank(d.x)

Init == prog \in {FullProg(p) : p \in Programs} /\ devs = <<>>
AddDev ==
  /\ Len(devs) < MaxDev
  /\ \E d \in DevOptions(prog) :
       /\ (devs # <<>> => Rank(d) > Rank(devs[Len(devs)]))
       /\ (d.t = "cmt" /\ d.x = "before_semi" => HasDev(devs, "semi", d.s))
       /\ (("range" \in DevTypes /\ d.t = "dir") => d.x = "ignore")     \* next to a range only the plain directive is explored
       /\ devs' = Append(devs, d)
  /\ UNCHANGED prog
Next == AddDev
Spec == Init /\ [][Next]_vars

Comments ==
  LET dirText(x) == CASE x = "ignore" -> " stylua: ignore" [] x = "start" -> " stylua: ignore start" [] x = "end" -> " stylua: ignore end"
      \* "ignore_ml": the directive on a line of its own inside a multi-line block comment that also says other things
      \* "ignore_bc": the directive written as a one-line block comment `--[[ stylua: ignore ]]`
      one(d) == CASE d.t = "dir" /\ d.x = "ignore_bc" -> <<[before_stmt |-> d.s, kind |-> "ownline", text |-> " stylua: ignore ", slot |-> 0]>>
                  [] d.t = "dir" /\ d.x = "ignore_ml" -> <<[before_stmt |-> d.s, kind |-> "mldir", text |-> "stylua: ignore", slot |-> 0]>>
                  [] d.t = "dir" -> <<[before_stmt |-> d.s, kind |-> "ownlinec", text |-> dirText(d.x), slot |-> 0]>>
                  [] d.t = "cmt" /\ d.x = "after" -> <<[after_stmt |-> d.s, kind |-> "line", text |-> " tc", slot |-> 0]>>
                  [] d.t = "cmt" /\ d.x = "before_semi" -> <<[before_semi |-> d.s, kind |-> "block", text |-> "bs", slot |-> 0]>>
                  \* a statement index past the last statement addresses the end of the file
                  [] d.t = "tail" /\ d.x = "blank" -> <<[before_stmt |-> d.s, kind |-> "blankline", text |-> "", slot |-> 0]>>
                  [] d.t = "tail" /\ d.x = "comment" -> <<[before_stmt |-> d.s, kind |-> "untidyc", text |-> " tail", slot |-> 0]>>
                  [] OTHER -> <<>>
      RECURSIVE all(_)
      all(i) == IF i > Len(devs) THEN <<>> ELSE one(devs[i]) \o all(i + 1)
  IN all(1)

RangeDev == {devs[i] : i \in {j \in DOMAIN devs : devs[j].t = "range"}}

Case ==
  [ tree |-> Block([j \in DOMAIN prog |-> ItemTree(prog, devs, j)]),
    layout |-> [profile |-> "messy", comments |-> Comments],
    cfg |-> [syntax |-> IF \E j \in DOMAIN prog : prog[j] = "compound" THEN "Luau" ELSE "Lua51"],
    meta |-> [src |-> "Block", prog |-> prog, devs |-> devs, nstmts |-> NStmts(prog)] ]
  @@ (IF RangeDev = {} THEN <<>> ELSE
        LET r == CHOOSE d \in RangeDev : TRUE IN
        [range_markers |-> [start |-> r.x, end |-> r.y]])

(* `f(a)` followed by `(g)(a)` is ONE statement unless a `;` separates them: such programs are not what
   the generator means (not faithful), so they are only emitted once the `;` deviation is present *)
EndsInExpr(k) == k \in {"local", "call", "pcall", "assign", "table", "repeat", "compound"}
NeedsSemiOK ==
  /\ \A j \in 1..(Len(prog) - 1) :
        (prog[j + 1] = "pcall" /\ EndsInExpr(prog[j])) => HasDev(devs, "semi", Base(prog, j))
  \* a line comment after the statement also needs the `;` to come first, otherwise the comment hides nothing
  \* but the next line still continues the expression

Emit == NeedsSemiOK => PrintT(<<"CASE", ToJson(Case)>>)
=============================================================================
