SPECIFICATION Spec
CONSTANTS
  BinOpsG = {"or", "and", "==", "|", "<<", "..", "+", "-", "*", "^"}
  UnOpsG = {"-", "not", "#", "~"}
  LeafKindsG = {"call", "vararg", "num", "index"}
  ContextsG = {"local", "local2", "assign", "return", "return2", "if", "repeat", "arg", "argfirst", "tpos", "tname", "index", "prefix", "prefixl", "prefixm", "prefixi", "genfor"}
  MaxDev = 2
  MaxPar = 2
  Shapes = {"bb_l", "bb_r", "bu_l", "bu_r", "ub", "uu", "b", "u", "l"}
INVARIANT Emit
INVARIANT NoParensNoChange
CHECK_DEADLOCK FALSE
