SPECIFICATION Spec
CONSTANTS
  ItemCodes = {"Ra", "RB", "Rb", "Rz", "Ga", "Gb", "O", "M", "P", "Q", "A"}
  MaxLen = 3
  MaxDev = 2
  DevTypes = {"sep", "dir", "semi", "cmt", "lead", "mline", "range"}
INVARIANT Emit
CHECK_DEADLOCK FALSE
