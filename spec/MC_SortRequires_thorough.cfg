SPECIFICATION Spec
CONSTANTS
  ItemCodes = {"Ra", "RB", "Rb", "Ga", "O", "M", "P", "Q"}
  MaxLen = 3
  MaxDev = 2
  DevTypes = {"sep", "dir", "semi", "cmt", "lead", "mline", "range"}
INVARIANT Emit
CHECK_DEADLOCK FALSE
