------------------------------- MODULE Layout -------------------------------
(***************************************************************************)
(* C10: output whitespace obeys line_endings and indent settings.           *)
(* The harness reports per-line records aggregated into classes             *)
(* (harness/src/obs.rs line_classes): leading tabs/spaces/other, ending,     *)
(* carriage returns inside the line, masks (string contents, block-comment   *)
(* interior, ignored / out-of-range text).  This module judges each class    *)
(* for a configuration.                                                      *)
(***************************************************************************)
EXTENDS Naturals, Sequences

CfgField(cfg, f, default) == IF f \in DOMAIN cfg THEN cfg[f] ELSE default

LineClassFails(c, cfg) ==
  LET eol    == CfgField(cfg, "line_endings", "Unix")
      itype  == CfgField(cfg, "indent_type", "Tabs")
      iwidth == CfgField(cfg, "indent_width", 4)
      want   == IF eol = "Windows" THEN "crlf" ELSE "lf"
  IN
  IF c.exempt THEN {}
  ELSE
    (IF ~c.end_mask /\ c.ending # want /\ ~(c.last /\ c.ending = "none") THEN {"line_ending"} ELSE {}) \cup
    (IF c.inner_cr THEN {"stray_cr"} ELSE {}) \cup
    (IF c.ind_mask THEN {}
     ELSE IF itype = "Tabs"
          THEN (IF c.spaces # 0 \/ c.other # 0 THEN {"indent_not_tabs"} ELSE {})
          ELSE (IF c.tabs # 0 \/ c.other # 0 THEN {"indent_not_spaces"}
                ELSE IF iwidth > 0 /\ c.spaces % iwidth # 0 THEN {"indent_not_multiple"} ELSE {}))

(* whole-file conjuncts: when the end of file was formatted, a non-empty output ends with exactly one ending *)
FileFails(lines, eofFormatted) ==
  IF ~eofFormatted \/ lines.empty THEN {}
  ELSE (IF ~lines.ends_with_newline THEN {"no_final_newline"} ELSE {}) \cup
       (IF lines.trailing_newlines > 1 THEN {"extra_final_newlines"} ELSE {})

(***************************************************************************)
(* Extra layout invariants (specification growth beyond the listed          *)
(* properties; reported as notes, never as violations of C10): no trailing  *)
(* whitespace on code lines, blank lines carry no whitespace, at most one    *)
(* consecutive blank line, no blank line at the start of the file.          *)
(***************************************************************************)
ExtraFails(lines) ==
  UNION { IF c.exempt \/ c.ind_mask THEN {}
          ELSE (IF c.trailing_ws THEN {"trailing_whitespace"} ELSE {}) \cup
               (IF c.blank /\ (c.tabs + c.spaces + c.other) > 0 THEN {"whitespace_on_blank_line"} ELSE {})
        : c \in {lines.classes[i] : i \in DOMAIN lines.classes} } \cup
  (IF lines.max_blank_run > 1 THEN {"two_blank_lines"} ELSE {}) \cup
  (IF lines.starts_blank THEN {"starts_with_blank_line"} ELSE {})

WhitespaceFails(lines, cfg, eofFormatted) ==
  UNION {LineClassFails(lines.classes[i], cfg) : i \in DOMAIN lines.classes} \cup FileFails(lines, eofFormatted)
=============================================================================
