------------------------------ MODULE MC_Diff ------------------------------
(***************************************************************************)
(* Generator + design-level check for C18.  A file is a sequence of up to    *)
(* MaxSeg segments; every segment kind stands for an edit shape that real    *)
(* formatting produces (unchanged line, changed line, one line expanding to  *)
(* several, several collapsing to one, a run of blank lines being dropped,   *)
(* statements being moved by require sorting); flags: CRLF input, no final   *)
(* newline.  The design-level part enumerates operation lists over old/new   *)
(* and checks that the mismatches the code builds reconstruct `new`.         *)
(***************************************************************************)
EXTENDS Diff, TLC, Json

CONSTANTS SegKinds, MaxSeg, Flags, AllLines
VARIABLES segs, flag
vars == <<segs, flag>>
Init == segs \in UNION {[1..n -> SegKinds] : n \in 1..MaxSeg} /\ flag \in Flags
Next == UNCHANGED vars
Spec == Init /\ [][Next]_vars
Emit == PrintT(<<"CASE", ToJson([segs |-> segs, flag |-> flag])>>)

(* design level: old = lines 1..ol of ids 1.., ops derived from the segment kinds *)
SegOld(k) == CASE k = "same" -> 1 [] k = "chg" -> 1 [] k = "expand" -> 2 [] k = "collapse" -> 3 [] k = "blank" -> 3 [] k = "ins" -> 0 [] k = "move" -> 2
SegNew(k) == CASE k = "same" -> 1 [] k = "chg" -> 1 [] k = "expand" -> 4 [] k = "collapse" -> 1 [] k = "blank" -> 1 [] k = "ins" -> 2 [] k = "move" -> 2
RECURSIVE OldLen(_, _), NewLen(_, _), Ops(_, _, _, _)
OldLen(ss, i) == IF i > Len(ss) THEN 0 ELSE SegOld(ss[i]) + OldLen(ss, i + 1)
NewLen(ss, i) == IF i > Len(ss) THEN 0 ELSE SegNew(ss[i]) + NewLen(ss, i + 1)
(* old line j has id j; new lines: unchanged lines keep their old id, others get ids 1000 + position *)
Ops(ss, i, oi, ni) ==
  IF i > Len(ss) THEN <<>>
  ELSE LET k == ss[i] IN
       (CASE k = "same" -> <<>>
          [] k = "blank" -> <<[k |-> "delete", oi |-> oi + 1, ol |-> 2, ni |-> ni + 1, nl |-> 0]>>     \* keep the first blank line
          [] k = "ins" -> <<[k |-> "insert", oi |-> oi, ol |-> 0, ni |-> ni, nl |-> 2]>>
          [] OTHER -> <<[k |-> "replace", oi |-> oi, ol |-> SegOld(k), ni |-> ni, nl |-> SegNew(k)]>>)
       \o Ops(ss, i + 1, oi + SegOld(k), ni + SegNew(k))
RECURSIVE NewIds(_, _, _, _)
NewIds(ss, i, oi, ni) ==
  IF i > Len(ss) THEN <<>>
  ELSE LET k == ss[i] IN
       (CASE k = "same" -> <<oi + 1>>
          [] k = "blank" -> <<oi + 1>>
          [] OTHER -> [j \in 1..SegNew(k) |-> 1000 + ni + j])
       \o NewIds(ss, i + 1, oi + SegOld(k), ni + SegNew(k))
(* the complete operation list (Equal operations included); with Stale the index an operation does not read    *)
(* its text through is off by one, as the diff library leaves it after compaction                             *)
RECURSIVE OpsFull(_, _, _, _, _)
OpsFull(ss, i, oi, ni, stale) ==
  IF i > Len(ss) THEN <<>>
  ELSE LET k == ss[i]  d == IF stale THEN 1 ELSE 0 IN
       (CASE k = "same" -> <<[k |-> "equal", oi |-> oi, ol |-> 1, ni |-> ni, nl |-> 1]>>
          [] k = "blank" -> <<[k |-> "equal", oi |-> oi, ol |-> 1, ni |-> ni, nl |-> 1],
                              [k |-> "delete", oi |-> oi + 1, ol |-> 2, ni |-> ni + 1 + d, nl |-> 0]>>
          [] k = "ins" -> <<[k |-> "insert", oi |-> IF oi > 0 THEN oi - d ELSE oi, ol |-> 0, ni |-> ni, nl |-> 2]>>
          [] OTHER -> <<[k |-> "replace", oi |-> oi, ol |-> SegOld(k), ni |-> ni, nl |-> SegNew(k)]>>)
       \o OpsFull(ss, i + 1, oi + SegOld(k), ni + SegNew(k), stale)
OldIds == [j \in 1..OldLen(segs, 1) |-> j]
(* design level only (insertions included, which the replayed segment kinds do not produce on their own): evaluated *)
(* once, in the state of the smallest case                                                                           *)
DesignSeqs == UNION {[1..n -> SegKinds \cup {"ins"}] : n \in 1..MaxSeg}
RunOK(ss, stale) ==
  ApplyJson([j \in 1..OldLen(ss, 1) |-> j], ImplJsonRun(OpsFull(ss, 1, 0, 0, stale), NewIds(ss, 1, 0, 0))) = NewIds(ss, 1, 0, 0)
DesignReconstructsRun ==
  (segs = <<"same">> /\ flag = "none") => \A ss \in DesignSeqs, stale \in BOOLEAN : RunOK(ss, stale)
(* the transcription of the code before the repair does NOT survive stale indices (kept as a witness that the model *)
(* discriminates): some sequence with an insertion is reconstructed wrongly                                          *)
NonEqual(ops) == SelectSeq(ops, LAMBDA o : o.k # "equal")
OldImplBreaksOnStale ==
  (segs = <<"same">> /\ flag = "none") =>
     \E ss \in DesignSeqs :
        ApplyJson([j \in 1..OldLen(ss, 1) |-> j],
                  ImplJson(NonEqual(OpsFull(ss, 1, 0, 0, TRUE)), [j \in 1..OldLen(ss, 1) |-> j], NewIds(ss, 1, 0, 0), TRUE)) # NewIds(ss, 1, 0, 0)
DesignReconstructs ==
  ApplyJson(OldIds, ImplJson(Ops(segs, 1, 0, 0), OldIds, NewIds(segs, 1, 0, 0), AllLines)) = NewIds(segs, 1, 0, 0)
=============================================================================
