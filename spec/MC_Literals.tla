---------------------------- MODULE MC_Literals ----------------------------
(***************************************************************************)
(* Generators for long-bracket strings and numeric literal spellings (C04). *)
(* Long strings: every body over LAlpha up to LMaxLen at bracket levels     *)
(* 0..MaxLevel (one appended symbol per step).  Numbers: spellings composed  *)
(* from the per-dialect numeric grammar (mantissa x fraction x exponent x    *)
(* suffix), one behaviour per spelling.                                      *)
(***************************************************************************)
EXTENDS Strings, TLC, Json

CONSTANTS LAlpha, LMaxLen, MaxLevel
VARIABLES body, mode
vars == <<body, mode>>

(* ---- numbers ---- *)
IntParts  == {"0", "1", "9", "10", "007", "123"}
FracParts == {"", ".", ".0", ".5", ".50", ".125"}
ExpParts  == {"", "e1", "E1", "e+1", "E-2", "e09"}
DecSpellings == {i \o f \o e : i \in IntParts, f \in FracParts, e \in ExpParts}
                \cup {f \o e : f \in {".0", ".5", ".50", ".125"}, e \in ExpParts}
HexInts   == {"0x0", "0xa", "0XA", "0xFf", "0x10", "0x00ff", "0xDEADBEEF", "0xffffffffffffffff"}
HexFloats == {"0x1p4", "0xA.8p0", "0x.1p1", "0xa.p1", "0X1P-2", "0x1.8p+1", "0x10p-4"}
LuauNums  == {"0b101", "0B0", "1_000", "0xFF_FF", "0b1_0", "1_0.5_0", "1e1_0", "0b11111111"}
JitNums   == {"1LL", "1ULL", "0x1LL", "1i", "1.5i", "0xffULL", "42ll", "7ull", "0i"}

NumCases ==
  {[kind |-> "numlit", text |-> t, syntax |-> sx] : t \in DecSpellings \cup HexInts, sx \in {"Lua51", "Lua54", "Luau", "LuaJIT"}}
  \cup {[kind |-> "numlit", text |-> t, syntax |-> sx] : t \in HexFloats, sx \in {"Lua52", "Lua54", "LuaJIT"}}
  \cup {[kind |-> "numlit", text |-> t, syntax |-> "Luau"] : t \in LuauNums}
  \cup {[kind |-> "numlit", text |-> t, syntax |-> "LuaJIT"] : t \in JitNums}

Init == body = <<>> /\ mode \in {"long", "num"}
AppendSym == mode = "long" /\ Len(body) < LMaxLen /\ \E c \in LAlpha : body' = Append(body, c) /\ UNCHANGED mode
Next == AppendSym
Spec == Init /\ [][Next]_vars

LongCase(lv) == [kind |-> "longlit", level |-> lv, body |-> body, dec |-> DecodeLong(body), syntax |-> "Lua51"]

Emit ==
  IF mode = "long"
  THEN \A lv \in 0..MaxLevel : PrintT(<<"CASE", ToJson(LongCase(lv))>>)
  ELSE body # <<>> \/ \A c \in NumCases : PrintT(<<"CASE", ToJson(c)>>)
=============================================================================
