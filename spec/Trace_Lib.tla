------------------------------ MODULE Trace_Lib ------------------------------
(***************************************************************************)
(* Trace validation for the library properties.  Consumes the ndjson trace  *)
(* recorded by the harness, one event = one Formatter action, binds the     *)
(* logged observation, and evaluates every property on the resulting state. *)
(* A failing property does not reject the trace: it is printed as a verdict *)
(* line and the run continues, so that one bad event cannot hide the rest.  *)
(* Acceptance (POSTCONDITION): every line was consumed.                     *)
(***************************************************************************)
EXTENDS Formatter, ExprParens, Json, IOUtils, TLCExt

Lay == INSTANCE Layout
Blk == INSTANCE Block
SR == INSTANCE SortRequires
Opt == INSTANCE Options

Rec == ndJsonDeserialize(IOEnv.TRACE)

VARIABLE l
tvars == <<l, pc, doc, fmt, rep, ref>>

IsEvent(e) == l <= Len(Rec) /\ Rec[l].ev = e /\ l' = l + 1

V(prop, what) == [p |-> prop, w |-> what, i |-> 0]

SortOn(f) == Has(f.cfg, "sort_requires") /\ f.cfg.sort_requires.enabled

HasDirectives(d) == Has(d, "has_directives") /\ d.has_directives

(* verdicts of one event; `d` is the rendered document of the case *)
FormatFails(d, f) ==
  (IF ~Total(d, f) THEN {V("C07", IF f.outcome \notin {"ok", "parse_error"} THEN f.outcome
                                  ELSE IF (f.outcome = "ok") # (f.in_parse = "ok") THEN "ok_mismatch"
                                  ELSE "cpu")} ELSE {}) \cup
  (IF f.outcome = "ok" /\ f.in_parse = "ok"
   THEN (IF ~TokensKept(f) /\ ~SortOn(f) THEN {V("C02", "tokens"), V("C03", "tokens")} ELSE {}) \cup
        (IF ~CensusKept(f) THEN {V("C03", "census")} \cup (IF SortOn(f) THEN {V("C12", "census")} ELSE {}) ELSE {}) \cup
        (IF Has(f, "stmts") /\ Has(f.stmts, "recs") /\ f.stmts.sort_on /\ ~Has(f.stmts, "range")
         THEN Blk!IgnoredVerbatimFails(f.stmts.recs) ELSE {}) \cup
        (IF Has(f, "stmts") /\ Has(f.stmts, "recs") /\ ~f.stmts.sort_on
         THEN Blk!IgnoreFails(f.stmts.recs) \cup
              (IF Has(f.stmts, "range")
               THEN Blk!RangeFails(f.stmts.recs, f.stmts.range, f.stmts.affix, f.identity)
               ELSE {})
         ELSE {}) \cup
        (IF Has(f, "sort") /\ Has(f.sort, "ins")
         THEN LET hasR == Has(f.sort, "range")
                  rg == IF hasR THEN f.sort.range ELSE [start |-> 0, has_start |-> FALSE, end |-> 0, has_end |-> FALSE]
              IN {V(IF w \in {"out_of_range_group_sorted", "out_of_range_text_changed"} THEN "C09" ELSE "C12", w)
                     : w \in SR!Fails(f.sort.ins, f.sort.outs, f.sort.enabled, rg, hasR)} \cup
                 (IF SR!Drift(f.sort.ins, f.sort.outs, f.sort.enabled, rg, hasR) THEN {V("DRIFT", "sort_requires")} ELSE {})
         ELSE {}) \cup
        (IF Has(f, "strings_out") /\ ~Has(d, "range") /\ ~HasDirectives(d)
         THEN {V("C11", w) : w \in Opt!QuoteFails(f.strings_out, f.cfg, FALSE)}
         ELSE {}) \cup
        (IF ~Deterministic(f) THEN {V("XL", "nondeterministic")} ELSE {}) \cup
        (IF Has(f, "lines")
         THEN {V("C10", w) : w \in Lay!WhitespaceFails(f.lines, f.cfg, ~Has(d, "range"))} \cup
              (IF ~Has(d, "range") /\ ~HasDirectives(d) THEN {V("XL", w) : w \in Lay!ExtraFails(f.lines)} ELSE {})
         ELSE {})
   ELSE {})

GenExpr(d) == Has(d, "meta") /\ Has(d.meta, "src") /\ d.meta.src = "ExprParens"

ReparseFails(d, f, r) ==
  (IF ~Valid(r) THEN {V("C01", "reparse")} \cup
                     \* with require sorting on, an output that does not parse is in particular not a permutation of the statements
                     (IF SortOn(f) /\ Has(f, "sort") THEN {V("C12", "sorted_output_unparseable")} ELSE {})
   ELSE {}) \cup
  (IF Valid(r) /\ ~MeaningKept(r) /\ ~SortOn(f)
   THEN {V("C02", "meaning")} \cup (IF GenExpr(d) THEN {V("C05", "grouping")} ELSE {})
   ELSE {}) \cup
  (IF Valid(r) /\ ~MirrorAgrees(r) THEN {V("TOOL", "mirror")} ELSE {}) \cup
  (IF Valid(r) /\ Has(r, "calls_out") /\ ~Has(d, "range") /\ ~HasDirectives(d)
   THEN {V("C11", w) : w \in Opt!CallFails(r.calls_in, r.calls_out, f.cfg)} \cup
        {V("C11", w) : w \in Opt!HeaderFails(r.headers_out, f.cfg)}
   ELSE {}) \cup
  \* drift: the Impl model's prediction for generated expression cases
  (IF Valid(r) /\ GenExpr(d) /\ Has(r, "out_tree")
   THEN IF \E i \in DOMAIN d.meta.pred_c : d.meta.pred_c[i] = At(r.out_tree, d.meta.epath)
        THEN {} ELSE {V("DRIFT", "exprparens")}
   ELSE {})

ReformatFails(x) ==
  IF ~Fixpoint(x) THEN {V("C06", IF x.outcome # "ok" THEN "second_pass_" \o x.outcome
                                  ELSE IF Has(x, "third_equal") /\ x.third_equal THEN "late_convergence"
                                  ELSE "oscillation")} ELSE {}

RenderFails(d) ==
  \* a generated tree must re-parse to itself: only checked when no comments were injected, and when the
  \* case parsed at all (a comment can legitimately make a rendering unparseable: out of the domain)
  (IF Has(d, "spec_match") /\ d.spec_match = FALSE /\ ~Has(d, "slot_ctx") THEN {V("TOOL", "spec_mismatch")} ELSE {}) \cup
  (IF Has(d, "ntok") /\ Has(d, "meta") /\ Has(d.meta, "ntok") /\ d.ntok # d.meta.ntok THEN {V("TOOL", "ntok")} ELSE {})

Report(e, fails) ==
  fails = {} \/ PrintT(<<"VERDICT", ToJson([idx |-> e.idx, id |-> e.id, variant |-> IF Has(e, "variant") THEN e.variant ELSE 0, fails |-> fails])>>)

TraceRender == /\ IsEvent("Render") /\ Render(Rec[l]) /\ Report(Rec[l], RenderFails(Rec[l]))
TraceFormat == /\ IsEvent("Format") /\ Format(Rec[l]) /\ Report(Rec[l], FormatFails(doc, Rec[l]))
TraceReparse == /\ IsEvent("Reparse") /\ Reparse(Rec[l]) /\ Report(Rec[l], ReparseFails(doc, fmt, Rec[l]))
TraceReformat == /\ IsEvent("Reformat") /\ Reformat(Rec[l]) /\ Report(Rec[l], ReformatFails(Rec[l]))
TraceVerify == /\ IsEvent("Verify") /\ Verify(Rec[l])
(* harness-level events that are not Formatter actions: a worker crash or timeout stands for the
   Format action of that case with that outcome; Skip/ToolError are consumed without a state change *)
TraceCrash ==
  /\ l <= Len(Rec) /\ Rec[l].ev \in {"Crash", "Timeout"} /\ l' = l + 1
  /\ Report([idx |-> Rec[l].idx, id |-> "?"], {V("C07", IF Rec[l].ev = "Crash" THEN "crash" ELSE "timeout")})
  /\ UNCHANGED fvars
TraceOther ==
  /\ l <= Len(Rec) /\ Rec[l].ev \in {"Skip", "ToolError"} /\ l' = l + 1
  /\ (Rec[l].ev = "ToolError" => PrintT(<<"TOOLERROR", ToJson(Rec[l])>>))
  /\ UNCHANGED fvars

TraceInit == FInit /\ l = 1
TraceNext == TraceRender \/ TraceFormat \/ TraceReparse \/ TraceReformat \/ TraceVerify \/ TraceCrash \/ TraceOther
TraceSpec == TraceInit /\ [][TraceNext]_tvars

TraceAccepted ==
  LET d == TLCGet("stats").diameter IN
  IF d - 1 = Len(Rec) THEN PrintT(<<"ACCEPTED", Len(Rec)>>)
  ELSE PrintT(<<"REJECTED at event", d, IF d <= Len(Rec) THEN ToJson(Rec[d]) ELSE "?">>) /\ FALSE
=============================================================================
