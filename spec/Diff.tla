-------------------------------- MODULE Diff --------------------------------
(***************************************************************************)
(* C18: diffs printed by --check reconstruct the formatted file.            *)
(* Lines are identifiers (a line includes its terminator: the same text      *)
(* without a final newline is a different identifier).                       *)
(*  ApplyUnified(old, hunks): apply a unified diff.                          *)
(*  ApplyJson(old, ms): apply JSON mismatches as line-range replacements     *)
(*     (0-based inclusive ranges; an empty `original` is an insertion before *)
(*     original_start_line).                                                 *)
(*  ImplJson(ops): how output_diff.rs builds the mismatches from the diff    *)
(*     operations (Replace / Delete / Insert), transcribed; the design-level *)
(*     obligation is ApplyJson(old, ImplJson(ops)) = new.                    *)
(***************************************************************************)
EXTENDS Integers, Sequences, FiniteSets

Take(s, a, b) == IF a > b THEN <<>> ELSE SubSeq(s, a, b)      \* 1-based inclusive

(* ---- unified: hunk = [old_start (1-based), lines : Seq([tag, id])] ---- *)
RECURSIVE HunkOut(_, _), HunkOldLen(_, _), HunkConsistent(_, _, _, _)
HunkOut(ls, i) == IF i > Len(ls) THEN <<>> ELSE (IF ls[i].tag \in {" ", "+"} THEN <<ls[i].id>> ELSE <<>>) \o HunkOut(ls, i + 1)
HunkOldLen(ls, i) == IF i > Len(ls) THEN 0 ELSE (IF ls[i].tag \in {" ", "-"} THEN 1 ELSE 0) + HunkOldLen(ls, i + 1)
HunkConsistent(old, ls, i, pos) ==       \* context and removed lines are the old file's lines at that position
  IF i > Len(ls) THEN TRUE
  ELSE IF ls[i].tag = "+" THEN HunkConsistent(old, ls, i + 1, pos)
  ELSE pos <= Len(old) /\ old[pos] = ls[i].id /\ HunkConsistent(old, ls, i + 1, pos + 1)

RECURSIVE ApplyUnifiedFrom(_, _, _, _)
ApplyUnifiedFrom(old, hs, k, pos) ==      \* pos = next old line (1-based) not yet copied
  IF k > Len(hs) THEN Take(old, pos, Len(old))
  ELSE LET h == hs[k]
           start == IF HunkOldLen(h.lines, 1) = 0 THEN h.old_start + 1 ELSE h.old_start   \* `-a,0` means "after line a"
       IN Take(old, pos, start - 1) \o HunkOut(h.lines, 1) \o ApplyUnifiedFrom(old, hs, k + 1, start + HunkOldLen(h.lines, 1))
ApplyUnified(old, hs) == ApplyUnifiedFrom(old, hs, 1, 1)
UnifiedConsistent(old, hs) ==
  \A k \in DOMAIN hs : HunkConsistent(old, hs[k].lines, 1, IF HunkOldLen(hs[k].lines, 1) = 0 THEN hs[k].old_start + 1 ELSE hs[k].old_start)

(* ---- JSON: m = [os, oe, es, ee (0-based), exp : Seq(id), is_insert, is_delete] ---- *)
RECURSIVE ApplyJsonFrom(_, _, _, _)
ApplyJsonFrom(old, ms, k, pos) ==         \* pos = next old line (0-based) not yet copied
  IF k > Len(ms) THEN Take(old, pos + 1, Len(old))
  ELSE LET m == ms[k] IN
       Take(old, pos + 1, m.os) \o m.exp \o
       ApplyJsonFrom(old, ms, k + 1, IF m.is_insert THEN m.os ELSE m.oe + 1)
ApplyJson(old, ms) == ApplyJsonFrom(old, ms, 1, 0)
(* the announced expected range has as many lines as the expected text *)
JsonRangesConsistent(ms) == \A k \in DOMAIN ms : ms[k].is_delete \/ Len(ms[k].exp) = ms[k].ee - ms[k].es + 1

(* ---- Impl: construction of the mismatches from diff operations (output_diff.rs:129-199) ---- *)
(* op = [k |-> "replace"|"delete"|"insert", oi, ol, ni, nl]  (indices 0-based, lengths)  *)
ImplMismatch(op, old, new, allLines) ==
  CASE op.k = "replace" -> [os |-> op.oi, oe |-> op.oi + op.ol - 1, es |-> op.ni, ee |-> op.ni + op.nl - 1,
                            exp |-> Take(new, op.ni + 1, op.ni + op.nl), is_insert |-> FALSE, is_delete |-> FALSE]
    [] op.k = "delete"  -> [os |-> op.oi, oe |-> op.oi + op.ol - 1, es |-> op.ni, ee |-> op.ni,
                            exp |-> <<>>, is_insert |-> FALSE, is_delete |-> TRUE]
    [] op.k = "insert"  -> [os |-> op.oi, oe |-> op.oi, es |-> op.ni, ee |-> op.ni + op.nl - 1,
                            \* `allLines` = the repaired code (every inserted line); otherwise only the first change
                            exp |-> IF allLines THEN Take(new, op.ni + 1, op.ni + op.nl) ELSE Take(new, op.ni + 1, op.ni + 1),
                            is_insert |-> TRUE, is_delete |-> FALSE]
ImplJson(ops, old, new, allLines) == [k \in DOMAIN ops |-> ImplMismatch(ops[k], old, new, allLines)]

(* ---- Impl after the repair of the line numbers: the operation list of the diff library, Equal operations   *)
(* included, is folded with running positions; only the LENGTHS of the operations and the index on the side   *)
(* an operation reads its text from are used.  (similar 2.4's compaction pass leaves the other index stale:   *)
(* `Delete{old 1244, new 1310}` followed by `Insert{old 1245, new 1309}` on tests/inputs/large-example.lua at  *)
(* width 80 - the old transcription ImplJson then announces the insertion one line too early.)                *)
RECURSIVE ImplJsonRunFrom(_, _, _, _, _)
ImplJsonRunFrom(ops, k, op_, np_, new) ==
  IF k > Len(ops) THEN <<>>
  ELSE LET o == ops[k] IN
       IF o.k = "equal" THEN ImplJsonRunFrom(ops, k + 1, op_ + o.ol, np_ + o.nl, new)
       ELSE <<[os |-> op_, oe |-> IF o.k = "insert" THEN op_ ELSE op_ + o.ol - 1,
               es |-> np_, ee |-> IF o.k = "delete" THEN np_ ELSE np_ + o.nl - 1,
               \* the text is read through the operation's own index on the side it touches (never stale)
               exp |-> IF o.k = "delete" THEN <<>> ELSE Take(new, o.ni + 1, o.ni + o.nl),
               is_insert |-> o.k = "insert", is_delete |-> o.k = "delete"]>>
            \o ImplJsonRunFrom(ops, k + 1, op_ + o.ol, np_ + o.nl, new)
ImplJsonRun(ops, new) == ImplJsonRunFrom(ops, 1, 0, 0, new)
=============================================================================
