SPECIFICATION Spec
CONSTANTS
  Pieces = {"lit", "escbrace", "dq", "name", "spaced", "table", "table1", "tcast", "teq", "call", "str", "par", "nested", "ifexp"}
  MaxPieces = 2
  Positions = {"local", "arg", "sugar", "method"}
INVARIANT Emit
CHECK_DEADLOCK FALSE
