----------------------------- MODULE MC_ExitCode -----------------------------
(* Instance of ExitCode whose operation lists come from a recorded free run (JSON file named by the
   environment variable OPS); prints every complete interleaving as a schedule for the replay.       *)
EXTENDS ExitCode, TLC, Json, IOUtils

Ops == JsonDeserialize(IOEnv.OPS)
MainJ == Ops.main
ResJ == Ops.results
ExpectedJ == Ops.expected

Emit == Done => PrintT(<<"CASE", ToJson([sched |-> hist, model_exit |-> code, truthful |-> (code = Expected)])>>)
DesignNote == StatusTruthful \/ PrintT(<<"DESIGN", ToJson([sched |-> hist, model_exit |-> code, expected |-> Expected])>>)
=============================================================================
