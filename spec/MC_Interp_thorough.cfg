SPECIFICATION Spec
CONSTANTS
  Pieces = {"lit", "escbrace", "dq", "name", "spaced", "table", "table1", "tcast", "teq", "call", "str", "par", "nested", "ifexp", "space", "escnl"}
  MaxPieces = 3
  Positions = {"local", "arg", "sugar", "method"}
INVARIANT Emit
CHECK_DEADLOCK FALSE
