------------------------------ MODULE Carriers ------------------------------
(***************************************************************************)
(* C20: an option means the same thing wherever it is written.              *)
(* The table of documented option values and their spellings per carrier:   *)
(* stylua.toml / .stylua.toml, the command-line flag (case-insensitive for   *)
(* enumerations), and the .editorconfig key where one exists.  Each entry    *)
(* names the library configuration it denotes ([f |-> field, v |-> value]).  *)
(***************************************************************************)
EXTENDS Naturals, Sequences, FiniteSets

E(opt, v, flag, eckey, ecval, probe) == [opt |-> opt, v |-> v, flag |-> flag, eckey |-> eckey, ecval |-> ecval, probe |-> probe]

Table == {
  E("syntax", "All", "--syntax", "", "", "plain"), E("syntax", "Lua51", "--syntax", "", "", "plain"),
  E("syntax", "Lua52", "--syntax", "", "", "lua52"), E("syntax", "Lua53", "--syntax", "", "", "lua53"),
  E("syntax", "Lua54", "--syntax", "", "", "lua54"), E("syntax", "LuaJIT", "--syntax", "", "", "luajit"),
  E("syntax", "Luau", "--syntax", "", "", "luau"),
  E("column_width", "40", "--column-width", "max_line_length", "40", "plain"),
  E("column_width", "200", "--column-width", "max_line_length", "200", "plain"),
  E("line_endings", "Unix", "--line-endings", "end_of_line", "lf", "plain"),
  E("line_endings", "Windows", "--line-endings", "end_of_line", "crlf", "plain"),
  E("indent_type", "Tabs", "--indent-type", "indent_style", "tab", "plain"),
  E("indent_type", "Spaces", "--indent-type", "indent_style", "space", "plain"),
  E("indent_width", "2", "--indent-width", "indent_size", "2", "spaces"),
  E("indent_width", "8", "--indent-width", "indent_size", "8", "spaces"),
  E("indent_width", "3", "--indent-width", "tab_width", "3", "spaces_tabwidth"),
  \* indent_size = N next to a DIFFERENT tab_width: tab_width only matters for `indent_size = tab` (EditorConfig)
  E("indent_width", "5", "--indent-width", "indent_size", "5", "spaces_othertab"),
  E("quote_style", "AutoPreferDouble", "--quote-style", "quote_type", "double", "plain"),
  E("quote_style", "AutoPreferSingle", "--quote-style", "quote_type", "single", "plain"),
  E("quote_style", "ForceDouble", "--quote-style", "", "", "plain"),
  E("quote_style", "ForceSingle", "--quote-style", "", "", "plain"),
  E("call_parentheses", "Always", "--call-parentheses", "call_parentheses", "always", "plain"),
  E("call_parentheses", "NoSingleString", "--call-parentheses", "call_parentheses", "nosinglestring", "plain"),
  E("call_parentheses", "NoSingleTable", "--call-parentheses", "call_parentheses", "nosingletable", "plain"),
  E("call_parentheses", "None", "--call-parentheses", "call_parentheses", "none", "plain"),
  E("call_parentheses", "Input", "--call-parentheses", "", "", "plain"),
  E("collapse_simple_statement", "Never", "--collapse-simple-statement", "collapse_simple_statement", "never", "plain"),
  E("collapse_simple_statement", "FunctionOnly", "--collapse-simple-statement", "collapse_simple_statement", "functiononly", "plain"),
  E("collapse_simple_statement", "ConditionalOnly", "--collapse-simple-statement", "collapse_simple_statement", "conditionalonly", "plain"),
  E("collapse_simple_statement", "Always", "--collapse-simple-statement", "collapse_simple_statement", "always", "plain"),
  E("space_after_function_names", "Never", "--space-after-function-names", "space_after_function_names", "never", "plain"),
  E("space_after_function_names", "Definitions", "--space-after-function-names", "space_after_function_names", "definitions", "plain"),
  E("space_after_function_names", "Calls", "--space-after-function-names", "space_after_function_names", "calls", "plain"),
  E("space_after_function_names", "Always", "--space-after-function-names", "space_after_function_names", "always", "plain"),
  E("sort_requires", "true", "--sort-requires", "sort_requires", "true", "plain") }

CarriersOf(e) == {"toml", "dottoml", "flag", "flag_lower", "flag_upper"} \cup (IF e.eckey # "" THEN {"ec", "ec_upper"} ELSE {})
IsNumeric(e) == e.opt \in {"column_width", "indent_width"}

Malformations == {"misspelt_key", "wrong_type", "unknown_table", "invalid_enum", "unknown_key_in_table", "not_toml"}
=============================================================================
