SPECIFICATION Spec
CONSTANTS
  Kinds = {"line", "block", "mlmixed", "ownlinec"}
  MaxComments = 1
  Groups = {"stmt", "call", "expr", "block", "func", "table", "luau"}
INVARIANT Emit
CHECK_DEADLOCK FALSE
