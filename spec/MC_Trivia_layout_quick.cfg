SPECIFICATION Spec
CONSTANTS
  Kinds = {"line", "block", "mlmixed"}
  MaxComments = 1
  Groups = {"stmt", "call", "expr", "block", "func", "table", "luau"}
INVARIANT Emit
CHECK_DEADLOCK FALSE
