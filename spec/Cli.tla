--------------------------------- MODULE Cli ---------------------------------
(***************************************************************************)
(* The command-line tool as a state machine over an abstract file system    *)
(* (C13 C14 C17 C19).  One run:                                             *)
(*    Start -> (Dispatch | WorkerStart | FsWrite | OutRecv | AtomicOp)*      *)
(*          -> Exit -> Final                                                *)
(* The hooked binary logs one event per action (src/cli/verif_hooks.rs);    *)
(* Trace_Cli replays them through these actions.  The exit status is the    *)
(* traced atomic: every load/store/fetch_max is its own step, so the model  *)
(* value `code` must agree with every logged result (conformance), and the  *)
(* final status is judged against ExpectedExit, which does not depend on    *)
(* the schedule.                                                            *)
(*                                                                          *)
(* A scenario (from the generators) is a record                              *)
(*   [files : Seq([path, cls, loc, i]), mode : "check"|"write", fmt, verify, *)
(*    threads, sortreq, priv]                                                *)
(***************************************************************************)
EXTENDS Integers, Sequences, FiniteSets

Has(r, f) == f \in DOMAIN r
SeqToSet(s) == {s[i] : i \in DOMAIN s}
Max2(a, b) == IF a > b THEN a ELSE b

(* ---------------- what the scenario means ---------------- *)
Selected(sc, f) == TRUE      \* generators only emit files that are selected (explicit, or *.lua in a directory)

Fails(sc, f) ==
  \/ f.cls \in {"unparseable", "nonutf8", "missing", "crash"}
  \/ f.cls = "unreadable" /\ sc.priv
  \/ f.cls = "verifyfail" /\ sc.verify /\ sc.sortreq
  \/ f.cls = "readonly" /\ sc.priv /\ sc.mode = "write"
Differs(sc, f) ==
  \/ f.cls \in {"unformatted", "unformatted_multi", "readonly", "crlf", "nonl"}   \* "crlf": only the line terminators differ; "nonl": only the final newline is missing
  \* (class "empty", a zero-byte file, neither fails nor differs: its formatted form is empty)
  \/ f.cls = "unreadable" /\ ~sc.priv
  \/ f.cls = "verifyfail" /\ sc.sortreq

ExpectedExit(sc) ==
  IF \E f \in SeqToSet(sc.files) : Fails(sc, f) THEN 2
  ELSE IF sc.mode = "check" /\ \E f \in SeqToSet(sc.files) : Differs(sc, f) THEN 1
  ELSE 0
ExpectedDiffs(sc) == {f.path : f \in {g \in SeqToSet(sc.files) : Differs(sc, g) /\ ~Fails(sc, g)}}
ExpectedWrites(sc) == IF sc.mode = "write" THEN ExpectedDiffs(sc) ELSE {}
AttemptOnly(sc) == IF sc.mode = "write" THEN {f.path : f \in {g \in SeqToSet(sc.files) : g.cls = "readonly" /\ sc.priv}} ELSE {}

(* ---------------- the run state machine ---------------- *)
VARIABLES phase, sc, code, written, dispatched, nrecv, exited
cvars == <<phase, sc, code, written, dispatched, nrecv, exited>>

CInit == phase = "idle" /\ sc = [none |-> TRUE] /\ code = 0 /\ written = <<>> /\ dispatched = <<>> /\ nrecv = 0 /\ exited = -1

Start(s) == /\ phase \in {"idle", "final"}
            /\ phase' = "running" /\ sc' = s /\ code' = 0 /\ written' = <<>> /\ dispatched' = <<>> /\ nrecv' = 0 /\ exited' = -1
(* the exit event is logged just before process::exit: worker threads can still log events until the process is gone *)
Live == phase \in {"running", "exited"}
Dispatch(p)  == Live /\ dispatched' = Append(dispatched, p) /\ UNCHANGED <<phase, sc, code, written, nrecv, exited>>
FsWrite(p)   == Live /\ written' = Append(written, p) /\ UNCHANGED <<phase, sc, code, dispatched, nrecv, exited>>
OutRecv      == Live /\ nrecv' = nrecv + 1 /\ UNCHANGED <<phase, sc, code, written, dispatched, exited>>
Other        == Live /\ UNCHANGED cvars
(* atomic accesses to the exit status, one step each *)
Load         == Live /\ UNCHANGED cvars
Store(v)     == Live /\ code' = v /\ UNCHANGED <<phase, sc, written, dispatched, nrecv, exited>>
FetchMax(v)  == Live /\ code' = Max2(code, v) /\ UNCHANGED <<phase, sc, written, dispatched, nrecv, exited>>
CmpXchg(e, v) == Live /\ code' = (IF code = e THEN v ELSE code) /\ UNCHANGED <<phase, sc, written, dispatched, nrecv, exited>>
Exit(c)      == phase = "running" /\ exited' = c /\ phase' = "exited" /\ UNCHANGED <<sc, code, written, dispatched, nrecv>>
Final        == phase \in {"running", "exited"} /\ phase' = "final" /\ UNCHANGED <<sc, code, written, dispatched, nrecv, exited>>

(* ---------------- judgement of the final observation ---------------- *)
FileObs(fin, p) == CHOOSE o \in SeqToSet(fin.files) : o.path = p
HasObs(fin, p) == \E o \in SeqToSet(fin.files) : o.path = p

FinalFails(s, fin, wr, ex) ==
  LET writes == {wr[i] : i \in DOMAIN wr} IN
  \* exit status tells the truth (C13 in check mode, C14 in write mode; C19: independent of schedule / thread count)
  (IF fin.exit # ExpectedExit(s) THEN {"exit"} ELSE {}) \cup
  (IF ex # -1 /\ ex # fin.exit THEN {"exit_hook_differs"} ELSE {}) \cup
  (IF fin.timed_out THEN {"hang"} ELSE {}) \cup
  \* nothing is created or deleted
  (IF fin.created # <<>> THEN {"file_created"} ELSE {}) \cup
  (IF fin.deleted # <<>> THEN {"file_deleted"} ELSE {}) \cup
  UNION {
    IF f.cls = "missing" \/ ~HasObs(fin, f.path) THEN {}
    ELSE LET o == FileObs(fin, f.path) IN
      IF f.path \in ExpectedWrites(s)
      THEN (IF "fmt" \notin SeqToSet(o.matches) THEN {"not_formatted"} ELSE {})
      ELSE (IF ~o.same_bytes THEN {IF s.mode = "check" THEN "check_modified_file" ELSE "failing_or_formatted_file_modified"} ELSE {}) \cup
           (IF ~o.same_mtime THEN {IF s.mode = "check" THEN "check_touched_file" ELSE "unchanged_file_rewritten"} ELSE {})
    : f \in SeqToSet(s.files) } \cup
  \* writes happen only for files that change, once each
  \* (the fs_write event is logged before the write is attempted: a read-only file that needs rewriting is attempted too)
  (IF ~(ExpectedWrites(s) \subseteq writes /\ writes \subseteq ExpectedWrites(s) \cup AttemptOnly(s)) THEN {"write_set"} ELSE {}) \cup
  (IF Cardinality(writes) # Len(wr) THEN {"written_twice"} ELSE {}) \cup
  \* diffs are printed for precisely the files that differ
  (IF s.mode = "check"
   THEN IF s.fmt = "unified" THEN (IF fin.n_diffs # Cardinality(ExpectedDiffs(s)) THEN {"diff_set"} ELSE {})
        ELSE (IF SeqToSet(fin.diff_files) # ExpectedDiffs(s) \/ fin.n_diffs # Cardinality(ExpectedDiffs(s)) THEN {"diff_set"} ELSE {})
   ELSE {})
=============================================================================
