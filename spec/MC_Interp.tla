------------------------------ MODULE MC_Interp ------------------------------
(***************************************************************************)
(* Generator of Luau interpolated strings (C01 C02 C06 C07): a string is a   *)
(* sequence of up to MaxPieces pieces - literal text (plain, an escaped      *)
(* brace, an escape, a quote) and `{expression}` segments whose expression   *)
(* starts with a table, a call, a string, another interpolated string, a     *)
(* parenthesis - placed in several positions.  The text is assembled here;   *)
(* what it means is decided by parsing input and output (the projection      *)
(* keeps the decoded literal pieces and the expression trees).               *)
(* Why: `{` directly followed by `{` is not an expression segment, so the    *)
(* formatter has to keep a space there whatever it does to the expression.   *)
(***************************************************************************)
EXTENDS Naturals, Sequences, TLC, Json

CONSTANTS Pieces, MaxPieces, Positions
VARIABLES body
Text(p) ==
  CASE p = "lit"      -> "ab"
    [] p = "space"    -> " "
    [] p = "escbrace" -> "\\{"
    [] p = "escnl"    -> "\\n"
    [] p = "dq"       -> "\""
    [] p = "name"     -> "{x}"
    [] p = "spaced"   -> "{   x   }"
    [] p = "table"    -> "{ {} }"
    [] p = "table1"   -> "{ { 1,2 } }"
    [] p = "tcast"    -> "{ {} :: any }"
    [] p = "teq"      -> "{ { 1 } == t }"
    [] p = "call"     -> "{f( 1 )}"
    [] p = "str"      -> "{\"s\"}"
    [] p = "par"      -> "{(1 + 2) * 3}"
    [] p = "nested"   -> "{`in{ {} }`}"
    [] p = "ifexp"    -> "{if c then 1 else 2}"

Init == body = <<>>
Step == Len(body) < MaxPieces /\ \E p \in Pieces : body' = Append(body, p)
Spec == Init /\ [][Step]_body

RECURSIVE Cat(_, _)
Cat(b, i) == IF i > Len(b) THEN "" ELSE Text(b[i]) \o Cat(b, i + 1)
Lit == "`" \o Cat(body, 1) \o "`"
Src(pos) ==
  CASE pos = "local"  -> "local s = " \o Lit \o "\n"
    [] pos = "arg"    -> "f( " \o Lit \o " , 1 )\n"
    [] pos = "sugar"  -> "f " \o Lit \o "\n"
    [] pos = "method" -> "local n = ( " \o Lit \o " ):len()\n"

Kinds == {body[i] : i \in DOMAIN body}
Emit == body # <<>> => \A pos \in Positions :
  PrintT(<<"CASE", ToJson([src |-> Src(pos), cfg |-> [syntax |-> "Luau"],
                           meta |-> [src |-> "Interp", pos |-> pos, pieces |-> body,
                                     sig |-> "interp:" \o pos]])>>)
=============================================================================
