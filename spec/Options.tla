------------------------------- MODULE Options -------------------------------
(***************************************************************************)
(* C11: quote_style, call_parentheses and space_after_function_names are    *)
(* honoured in formatted (non-ignored) code.  Facts from the harness:        *)
(*  strings_out : string tokens of the output (quote, numbers of ' and " in  *)
(*                the raw body)                                              *)
(*  calls_in / calls_out : call sites of input / output in source order      *)
(*                (form paren|str|table, number and kind of arguments,       *)
(*                whether an index or call follows)                          *)
(*  headers_out : classes of `name (` occurrences: definition or call, space *)
(***************************************************************************)
EXTENDS Naturals, Sequences, Strings

Field(cfg, f, default) == IF f \in DOMAIN cfg THEN cfg[f] ELSE default

QuoteFails(strs, cfg, exemptAny) ==
  LET style == Field(cfg, "quote_style", "AutoPreferDouble") IN
  IF exemptAny THEN {}
  ELSE UNION { IF s.q \in {"\"", "'"} /\ (IF s.q = "'" THEN "SQ" ELSE "DQ") # RuleQuote(style, s.nsq, s.ndq)
               THEN {"quote"} ELSE {} : s \in {strs[i] : i \in DOMAIN strs} }

CallFails(cin, cout, cfg) ==
  LET mode == Field(cfg, "call_parentheses", "Always") IN
  IF Len(cin) # Len(cout) THEN {"call_count"}
  ELSE UNION {
    LET o == cout[i]  n == cin[i]
        single(kind) == o.nargs = 1 /\ o.argkind = kind /\ ~o.followed
    IN CASE mode = "Always" -> IF o.form # "paren" THEN {"always_without_parens"} ELSE {}
         [] mode = "None" -> IF (single("str") \/ single("table")) /\ o.form = "paren" THEN {"none_with_parens"} ELSE {}
         [] mode = "NoSingleString" -> IF single("str") /\ o.form = "paren" THEN {"nosinglestring_with_parens"} ELSE {}
         [] mode = "NoSingleTable" -> IF single("table") /\ o.form = "paren" THEN {"nosingletable_with_parens"} ELSE {}
         [] mode = "Input" -> IF o.form # n.form THEN {"input_form_changed"} ELSE {}
         [] OTHER -> {}
    : i \in DOMAIN cout }

HeaderFails(hs, cfg) ==
  LET mode == Field(cfg, "space_after_function_names", "Never")
      wantDef  == mode \in {"Definitions", "Always"}
      wantCall == mode \in {"Calls", "Always"}
  IN UNION { IF h.exempt \/ h.comment \/ h.kind = "anon" THEN {}
             ELSE IF h.kind = "def" /\ h.space # wantDef THEN {"definition_space"}
             ELSE IF h.kind = "call" /\ h.space # wantCall THEN {"call_space"}
             ELSE {} : h \in {hs[i] : i \in DOMAIN hs} }
=============================================================================
