SPECIFICATION Spec
CONSTANTS
  Pats = {"name:b.lua", "name:v.lua", "dir:vendor", "dir:deep", "ext:luau", "ext:lua", "anch:a.lua", "anch:b.lua", "!name:v.lua", "!name:b.lua", "!ext:lua"}
  ArgSets = {"dot", "src", "vendor", "a", "v", "w", "notes", "hidden", "dot+a", "a+a", "src+b", "src+vendor", "src+notes", "notes+src", "dot+notes", "notes+dot", "lib+src", "a+upa", "dot+upa", "srca+upa", "upa+srca"}
  MaxPats = 2
  IgNames = {"stylua", "ignore"}
  GlobSets = {"none", "lua", "luau", "txt", "lua-b", "-b+lua", "-vendor", "lua-vendor", "under-src"}
  FlagSets = {"none", "respect", "hidden", "both"}
INVARIANT Emit
CHECK_DEADLOCK FALSE
