SPECIFICATION Spec
CONSTANTS
  Alpha = {"SQ", "DQ", "BS", "n", "0", "1", "9", "x", "u", "LB", "RB", "z", "a", "q", "LF", "CR", "SP", "EA"}
  MaxLen = 3
INVARIANT Emit
INVARIANT DesignSafe
CHECK_DEADLOCK FALSE
