----------------------------- MODULE MC_Carriers -----------------------------
(* Generator for C20: (option value) x carrier x number of files, and malformed configuration files. *)
EXTENDS Carriers, TLC, Json
CONSTANTS NFiles, Locations
VARIABLE c
Init == c \in {[kind |-> "carrier", entry |-> e, carrier |-> k, nfiles |-> n, mal |-> "", loc |-> "cwd"] : e \in Table, k \in {"toml", "dottoml", "flag", "flag_lower", "flag_upper", "ec", "ec_upper"}, n \in NFiles}
             \cup {[kind |-> "malformed", entry |-> E("", "", "", "", "", "plain"), carrier |-> k, nfiles |-> 2, mal |-> m, loc |-> l] : m \in Malformations, l \in Locations, k \in {"toml", "dottoml", "config_path"}}
Next == UNCHANGED c
Spec == Init /\ [][Next]_c
Valid == c.kind = "malformed" \/ c.carrier \in CarriersOf(c.entry)
Emit == Valid => PrintT(<<"CASE", ToJson(c)>>)
=============================================================================
