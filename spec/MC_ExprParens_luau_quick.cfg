SPECIFICATION Spec
CONSTANTS
  BinOpsG = {"and", "<", "+", "^"}
  UnOpsG = {"-", "not"}
  LeafKindsG = {"cast", "ifexp", "call"}
  ContextsG = {"local", "return", "arg", "if", "compound", "ifexp_then", "ifexp_else", "castop"}
  MaxDev = 2
  MaxPar = 2
  Shapes = {"bb_l", "bb_r", "bu_l", "bu_r", "ub", "uu", "b", "u", "l"}
INVARIANT Emit
INVARIANT NoParensNoChange
CHECK_DEADLOCK FALSE
