SPECIFICATION Spec
CONSTANTS
  Inputs = {"unformatted", "formatted", "invalid", "empty", "crlf", "nonl", "large", "longtail"}
  Modes = {"write", "check", "check_unified", "check_json", "check_summary"}
  PathCases = {"none", "plain", "ign1", "ign2", "ign3", "ignfile", "ign_norespect", "cfgdir", "ecdir"}
  Extras = {"none", "verify", "threads1", "range_end"}
INVARIANT Emit
CHECK_DEADLOCK FALSE
