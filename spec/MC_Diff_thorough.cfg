SPECIFICATION Spec
CONSTANTS
  SegKinds = {"same", "chg", "expand", "collapse", "blank", "move"}
  MaxSeg = 5
  Flags = {"none", "crlf", "nonl"}
  AllLines = TRUE
INVARIANT Emit
INVARIANT DesignReconstructs
INVARIANT DesignReconstructsRun
INVARIANT OldImplBreaksOnStale
CHECK_DEADLOCK FALSE
