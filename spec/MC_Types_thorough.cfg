SPECIFICATION Spec
CONSTANTS
  Ctors = {"par", "opt", "fn", "fnarg", "unionl", "unionr", "interl", "arr", "gen", "field", "leadu", "leadi"}
  MaxDepth = 4
  Positions = {"local", "decl", "param", "cast"}
INVARIANT Emit
CHECK_DEADLOCK FALSE
