#!/usr/bin/env python3
"""Regenerate MANIFEST.json from the table below (keeps it valid at all times)."""
import json, os
root = os.path.dirname(os.path.dirname(os.path.abspath(__file__)))
props = [json.loads(l) for l in open(os.path.join(root, "properties.jsonl"))]

LIB_NOTE = ("Trusted base: TLC 1.8.0; full_moon 1.2.0 as the definition of syntax; the harness' projection, lexer, decoder and renderer "
            "(round-trip checked per case). Bounded: generator constants are in spec/MC_*_{quick,thorough}.cfg; only replayed executions count.")
CLAIMED = {
 "C01": ("TLC-generated expression/statement programs and the repository's test inputs replayed on the real library under every column width; "
         "each recorded Format/Reparse event validated by TLC against Formatter!Valid (re-parse with the real parser).",
         "G(TLC generator model) -> R(replay on real code) -> V(TLC trace validation of Formatter!Valid)", "5 C01"),
 "C02": ("Same traces; TLC evaluates LuaSyntax!Meaning on the projected input and output trees of every case (digests of the validated Rust mirror on corpus-sized files) "
         "and the code-token normal form; independent of StyLua's own --verify.",
         "G->R->V: LuaSyntax!Meaning equality + token normal form evaluated by TLC on recorded traces", "5 C02"),
 "C05": ("Exhaustive within the cfg constants: every operator skeleton with up to MaxDev decorations (parentheses at any node, call/vararg/number/cast/if-expression leaves) "
         "in every statement context, formatted at EVERY column width from 1 to fit+1, so single-line, hanging and multi-line paths are all exercised; "
         "grouping decided by TLC with Meaning (truncation-aware); the Impl model ExprParens (transcription of expression.rs) is bound by drift detection.",
         "TLC model ExprParens (design-level refinement) + G->R->V with Meaning", "5 C05"),
 "C06": ("Same traces with a Reformat action: second pass on the output must be byte-identical (third pass classifies oscillation vs late convergence). "
         "Known genuine non-idempotence classes are listed in known_findings.json by signature.",
         "G->R->V: Formatter!Fixpoint on recorded Reformat events", "5 C06"),
 "C07": ("Same traces: Formatter!Total on every Format event (outcome ok/parse_error only, ok iff the input parses by an independent parse, thread-CPU bound); "
         "worker crashes and timeouts are recorded as events, never tool errors; unparseable text (MC_Invalid: a template with one unbalanced token) with no, empty, inverted and out-of-bounds ranges must give a parse error.",
         "G->R->V: Formatter!Total on recorded Format events (panic/crash/timeout are data)", "5 C07"),
 "C03": ("Catalogue of ~57 construct templates (bare and with comments) x every inter-token slot x comment kind (MC_Trivia; NTok cross-checked against the renderer), each formatted under every column width and "
         "every collapse / call-parentheses value; TLC judges the comment census (own lexer) and the code-token normal form on every recorded Format event; plus the repository's test inputs.",
         "G->R->V: Formatter!CensusKept + TokensKept on recorded traces of slot-enumerated comment placements", "5 C03"),
 "C04": ("Exhaustive: every quoted body over the 18-symbol escape alphabet up to length 3 (and length 4 over the 7 escape-critical symbols) in both quote kinds, under 3 dialects, 4 quote styles x 2 line endings, "
         "5 syntactic positions for short bodies; long-bracket bodies (levels 0-2) and numeric spellings per dialect. Strings!Decode evaluated by TLC on input and output symbols decides; "
         "the design-level obligation RewriteSafe (transcribed regex tiling) is checked by TLC on every enumerated body; the Rust decoder is cross-checked against Strings!Decode on every case.",
         "TLC model Strings (RewriteSafe invariant) + G->R->V with Strings!Decode", "5 C04"),
 "C08": ("Statement sequences (MC_Block: skeletons x directives (line and multi-line block-comment forms)/semicolons/comments/untidy end of file within a deviation budget, nested containers) and require sequences with directives under sort_requires (MC_SortRequires) replayed; the harness records per-statement byte facts matched by structural path; "
         "TLC folds the block loop (Block!DisabledAt) to decide which statements had to be verbatim and judges VerbatimIgnored and, differentially against the directive-neutralised run, StillFormatted.",
         "G->R->V: Block!IgnoreFails (fold of the block loop over recorded statement facts)", "5 C08"),
 "C09": ("MC_Block with symbolic range markers (before/inside-first-token/after/last-byte/inside-last-token of every statement, 0, len, max) resolved to bytes by the harness, with tidy and untidy ends of file (extra blank lines, indented comment); TLC classifies every statement "
         "inside/boundary/outside (three-valued: code and README differ by one on the end bound) and judges verbatim-outside, equal-to-whole-file-inside, prefix and suffix.",
         "G->R->V: Block!RangeFails on recorded statement facts", "5 C09"),
 "C10": ("Trivia templates rendered with CRLF/mixed endings and space/mixed indentation (incl. block comments with mixed interior endings), formatted under every (line_endings, indent_type, indent_width) x widths; "
         "per-line whitespace classes from the own lexer judged by Layout!WhitespaceFails in TLC; ignored text exempt.",
         "G->R->V: Layout!WhitespaceFails on recorded per-line classes", "5 C10"),
 "C11": ("Call shapes (MC_Calls: argument kinds x sugar/paren form x what follows x position) under every call_parentheses x space_after_function_names value and every column width; all string bodies of the C04 "
         "enumeration under the 4 quote styles; TLC judges each output call site (aligned with the input's), each `name (` occurrence and each string token with Options!CallFails / HeaderFails / Strings!RuleQuote.",
         "G->R->V: Options!CallFails/HeaderFails/QuoteFails on recorded call, header and string tables", "5 C11"),
 "C12": ("Top-level sequences of require / GetService locals (duplicate and mixed-case names), other statements, blank/comment separators, directives, semicolons, trailing comments, range markers (MC_SortRequires), "
         "with the option on and off; TLC judges permutation, group locality, NAME order (stable), ignored/out-of-range groups, census; the Impl model (partition + stable sort) is bound by drift detection.",
         "TLC model SortRequires (Fails + ImplPos drift) on recorded top-level statement facts", "5 C12"),
}
CLI_NOTE = ("Trusted base: TLC 1.8.0; the add-only hooks of src/cli/verif_hooks.rs (cfg stylua_verif); the scenario driver tools/clirun.py "
            "(tree materialisation outside git repositories, uid 65534 via setpriv, file snapshots); vh libfmt for expected contents. "
            "Bounded: generator constants in spec/MC_*.cfg; only executed scenarios count.")
CLI_CLAIMED = {
 "C13": ("Every sequence of <= 2 (thorough: 3) files over 12 classes (formatted, unformatted, differing only in line terminators, lacking only the final newline, empty, unparseable, missing, unreadable, read-only, verification-failing, crashing, non-UTF-8), each named explicitly, found through a directory argument, or both (reachable twice: reported and written once), "
         "named explicitly or inside a directory, x mode x 4 output formats x --verify x thread counts, run on the hooked binary; each run's hook trace (dispatch, fs_write, atomic accesses to the exit "
         "status, exit) is replayed through Cli.tla's actions by TLC, the traced atomics must agree with the model value, and the final observation (bytes, mtimes, created files, exit, printed diffs) is judged by Cli!FinalFails.",
         "G(MC_CliFiles)->R(hooked binary)->V(Trace_Cli over Cli.tla)", "5 C13"),
 "C14": ("Same scenario space in write mode: final bytes equal the library's output exactly for files that differ and did not fail, all others byte- and mtime-identical, write attempts only for those, exit 2 iff something failed "
         "(crashing worker via the fault point; verification failure via --verify --sort-requires).",
         "G(MC_CliFiles)->R->V(Cli!FinalFails, write mode)", "5 C14"),
 "C19": ("The accesses to the exit status are extracted per thread role from a free run of the CURRENT binary; TLC enumerates every interleaving of them with every arrival order of results (ExitCode.tla, invariant StatusTruthful, "
         "liveness Terminates) and each interleaving is forced on the real binary through the hook scheduler; when every recorded access is store(2), fetch_max(1) or load, the theorem ExitCodeProof!Safety (status = maximum of what was reported, for ANY number of files and threads; 17 TLAPS obligations, also exhaustive in TLC since the state space is finite) applies and is re-proved by the check; plus free-running --num-threads 1..16 sweeps (mixed outcomes; directories with different indent settings, so that nothing a worker formatted earlier leaks into the next file) and the C13/C14 scenario space under several thread counts.",
         "TLC model ExitCode (all interleavings) replayed as forced schedules + trace validation; TLAPS proof ExitCodeProof (unbounded) under a vocabulary assumption checked against the recorded accesses", "5 C19"),
 "C15": ("Exhaustive within the deviation budget: every placement of <= 2 (thorough: 3) configuration files (stylua.toml / .stylua.toml / both, .editorconfig with/without root) on a spine of 5 directories around the working directory "
         "and in the four XDG/HOME locations, x option sets (--config-path, --search-parent-directories, --no-editorconfig, a command-line override) x target sets including several targets in one run (memo interaction), a directory, stdin with/without "
         "--stdin-filepath. Every file carries a distinct indent width, so the applied configuration is read off the output and judged by ConfigSearch!Resolve; the memoised search is transcribed (ImplHistory) and TLC checks it refines Resolve for every history.",
         "TLC model ConfigSearch (ImplRefines invariant) + G->R->V", "5 C15"),
 "C16": ("A fixed tree (nested directories, hidden entries, .luau and non-Lua files) with .styluaignore files at two levels over a pattern language (name, dir/, *.ext, /anchored, negations; <= 2 patterns), x argument lists (files, directories, overlapping, spelled through `..` (one file under two spellings; two same-named files at different levels), "
         "repeated, two spellings, a directory together with an explicit non-Lua file in both orders) x -g glob lists (selecting, excluding, mixed order, directory exclusion, dir/**) x --respect-ignores / --allow-hidden; processed set (bytes changed) and dispatch events judged against Selection!Selected (gitignore semantics in TLA+), with a stated tolerance for an explicitly named ignored directory.",
         "TLC model Selection + G->R->V (processed set and dispatch counts)", "5 C16"),
 "C17": ("Input classes (valid, invalid, empty, CRLF, no final newline, large, a multi-kilobyte last line without a final newline) x write/check in 4 formats x --stdin-filepath situations (none, not ignored, ignored directory 1-3 levels up, ignored file, ignored without --respect-ignores, directory with its own "
         "stylua.toml, directory with its own .editorconfig) x extras; stdout compared with the library's output / the input / empty, exit status, no fs_write event, tree snapshot unchanged.",
         "G(MC_Stdin)->R->V(Trace_Cli!StdinFails)", "5 C17"),
 "C18": ("(original, formatted) pairs from real formatting: every sequence of <= 4 edit-shape segments (unchanged, changed, expanding, collapsing, blank-run, moved by require sorting) x {LF, CRLF, no final newline}, and the repository's test inputs at several widths, "
         "through --check in all four formats; TLC applies the parsed unified hunks / JSON mismatches to the original (Diff!ApplyUnified / ApplyJson over line identifiers) and compares with the library's output; the JSON construction is transcribed (ImplJson) and checked at design level.",
         "TLC model Diff (ApplyJson/ApplyUnified, ImplJson refinement) + G->R->V", "5 C18"),
 "C20": ("Every documented option value (34 entries) x every carrier that can express it (stylua.toml, .stylua.toml, flag in three case variants, .editorconfig key in two case variants) x 1-2 files in the directory: output must equal the library's for the Config the "
         "Carriers table assigns; malformed files (misspelt key, wrong type, unknown table, invalid enum value, unknown key in a table, not TOML) at cwd / sub-directory / --config-path must give exit 2 and modify nothing.",
         "TLC table Carriers + G->R->V (CarrierFails)", "5 C20"),
}
checks = []
for pid, (text, tech, ref) in sorted(CLI_CLAIMED.items()):
    checks.append({
        "property_id": pid,
        "quick_cmd": "./check %s --tier quick" % pid,
        "thorough_cmd": "./check %s --tier thorough" % pid,
        "evidence_file": "evidence/%s.json" % pid,
        "replay_cmd_template": "./check %s --replay {path}" % pid,
        "engine": "cli-grv",
        "level_claimed": {"category": "model_checking", "text": text, "design_ref": "DESIGN.md section " + ref},
        "level_note": CLI_NOTE,
        "technique": tech,
    })
for pid, (text, tech, ref) in sorted(CLAIMED.items()):
    checks.append({
        "property_id": pid,
        "quick_cmd": "./check %s --tier quick" % pid,
        "thorough_cmd": "./check %s --tier thorough" % pid,
        "evidence_file": "evidence/%s.json" % pid,
        "replay_cmd_template": "./check %s --replay {path}" % pid,
        "engine": "lib-grv",
        "level_claimed": {"category": "model_checking", "text": text, "design_ref": "DESIGN.md section " + ref},
        "level_note": LIB_NOTE,
        "technique": tech,
    })
checks.sort(key=lambda c: c["property_id"])
m = {
 "version": 1,
 "setup_cmd": "./setup.sh",
 "hooks": {"guard": "stylua_verif",
           "enable": "RUSTFLAGS='--cfg stylua_verif --check-cfg cfg(stylua_verif)' cargo build --offline --bin stylua (done by ./check for C13-C20 into build/target-cli)",
           "baseline_off_cmd": "cd /repo && cargo test --workspace --no-fail-fast --offline",
           "source_commits": ["8c7ec8c", "4ec077d", "ddc690c"], "add_only": True},
 "engines": [
   {"name": "cli-grv", "path": "tools/clicheck.py", "serves_properties": sorted(CLI_CLAIMED.keys()),
    "kind_free_text": "TLC scenario generators (spec/MC_Cli*.tla, MC_ExitCode.tla ...) -> tools/clirun.py runs the hooked stylua binary on materialised trees (forced schedules through src/cli/verif_hooks.rs) -> TLC trace validation (spec/Trace_Cli.tla over Cli.tla)"},
   {"name": "lib-grv", "path": "tools/libcheck.py", "serves_properties": sorted(CLAIMED.keys()),
    "kind_free_text": "TLC generator models (spec/MC_*.tla) -> Rust replay harness (harness/) on stylua_lib::format_code -> TLC trace validation (spec/Trace_Lib.tla over spec/Formatter.tla, LuaSyntax.tla, ExprParens.tla)"},
 ],
 "checks": checks,
 "not_applicable": [{"property_id": p["id"], "reason": "check not built yet (build in progress, DESIGN.md section 8.1)"} for p in props if p["id"] not in CLAIMED and p["id"] not in CLI_CLAIMED],
 "notes": "Exit 2 = tool error (never a VIOLATION line). known_findings.json lists genuine defects by signature; fixed: entries suppress nothing.",
}
json.dump(m, open(os.path.join(root, "MANIFEST.json"), "w"), indent=1)
print("checks:", len(checks))
