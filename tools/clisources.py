"""Scenario sources for the command-line properties (G stage + concretisation)."""
import re
import json, os
import vlib, clirun
from sources import tlc_generate

PLAN = {
    "C13": ["clifiles"],
    "C14": ["clifiles"],
    "C15": ["configsearch"],
    "C16": ["selection"],
    "C17": ["stdin"],
    "C18": ["diff", "diffcorpus", "stdin"],
    "C20": ["carriers"],
    "C19": ["exitcode", "threads", "clifiles"],
}
TRACE_SPEC = {}


def _expected_formats(items):
    """items: list of (key, src_bytes, cfg[, range]) -> key -> formatted text or None"""
    req = [dict({"id": it[0], "src": it[1].decode("utf-8", "replace"), "cfg": it[2]}, **({"range": it[3]} if len(it) > 3 else {})) for it in items]
    res = clirun.libfmt_batch(req)
    return {it[0]: (res.get(it[0], ("?", None))[1] if res.get(it[0], ("?", None))[0] == "ok" else None) for it in items}


def src_clifiles(tier, seed):
    raw, st = tlc_generate("MC_CliFiles", "MC_CliFiles_%s.cfg" % tier, "g_clifiles_" + tier)
    raw.sort(key=lambda c: json.dumps(c, sort_keys=True))
    priv = clirun.have_setpriv()
    scenarios, fmt_req = [], []
    for n, c in enumerate(raw):
        tree, argv_paths, panic, files_meta = [], [], [], []
        have_dir = False
        for f in c["files"]:
            name = "f%d.lua" % f["i"]
            path = name if f["loc"] == "arg" else "d/" + name
            if f["loc"] in ("dir", "both") and not have_dir:
                have_dir = True
                tree.append({"path": "d", "kind": "dir"})
                argv_paths.append("d")
            if f["loc"] in ("arg", "both"):     # "both": also reachable through the directory argument
                argv_paths.append(path)
            ent = {"path": path, "class": f["cls"], "i": f["i"]}
            if f["cls"] == "crash":
                panic.append(name)
            tree.append(ent)
            files_meta.append({"path": path, "cls": f["cls"], "loc": f["loc"], "i": f["i"]})
        argv = []
        if c["mode"] == "check":
            argv.append("--check")
        if c["fmt"] != "standard":
            argv += ["--output-format", c["fmt"]]
        if c["verify"]:
            argv.append("--verify")
        if c["sortreq"]:
            argv.append("--sort-requires")
        if c.get("rng"):
            argv += ["--range-start", "0", "--range-end", "5"]
        argv += ["--num-threads", str(c["threads"])]
        argv += argv_paths
        meta = dict(c)
        meta["files"] = files_meta
        meta["priv"] = priv
        sc = {"id": "cf%d" % n, "tree": tree, "argv": argv, "panic": panic, "meta": meta}
        for ent in tree:
            if ent.get("kind") != "dir" and ent["class"] != "missing":
                fmt_req.append(((n, ent["path"]), clirun.content_for(ent["class"], ent["i"]), {"sort_requires": {"enabled": bool(c["sortreq"])}}))
        scenarios.append(sc)
    # expected formatted contents, in one batch (keys must be JSON-able)
    keyed = [("%d|%s" % k, b, cfg) for k, b, cfg in fmt_req]
    exp = _expected_formats(keyed)
    for n, sc in enumerate(scenarios):
        for ent in sc["tree"]:
            if ent.get("kind") != "dir" and ent["class"] != "missing":
                ent["expect"] = {"fmt": exp.get("%d|%s" % (n, ent["path"]))}
    return scenarios, st


CFG_SRC = b"do\nlocal   x = 's'\nend\n"
ALL_MARKS = [0, 1, 2, 3, 4, 5, 11, 12, 13, 14, 15, 21, 22, 23, 24, 25, 31, 32, 33, 34, 40, 50, 71, 72, 73, 74, 75]


def mark_cfg(m):
    return {} if m == 0 else {"indent_type": "Spaces", "indent_width": m}


def toml_for(m):
    return 'indent_type = "Spaces"\nindent_width = %d\n' % m


def src_configsearch(tier, seed):
    raw, st = tlc_generate("MC_ConfigSearch", "MC_ConfigSearch_%s.cfg" % tier, "g_configsearch_" + tier)
    raw.sort(key=lambda c: json.dumps(c, sort_keys=True))
    cand = _expected_formats([("k%d" % m, CFG_SRC, mark_cfg(m)) for m in ALL_MARKS])
    names = {1: "up2", 2: "up2/up1", 3: "up2/up1/cwd", 4: "up2/up1/cwd/sub1", 5: "up2/up1/cwd/sub1/sub2"}
    rel = {3: "", 4: "sub1/", 5: "sub1/sub2/"}
    scenarios = []
    for n, c in enumerate(raw):
        sc = c["sc"]
        tree = [{"path": names[5], "kind": "dir"}]
        for i in range(1, 6):
            lv = sc["lv"][i - 1]
            if lv["toml"] in ("stylua", "both"):
                tree.append({"path": names[i] + "/stylua.toml", "text": toml_for(i)})
            if lv["toml"] in ("dot", "both"):
                tree.append({"path": names[i] + "/.stylua.toml", "text": toml_for(10 + i)})
            if lv["ec"] != "none":
                tree.append({"path": names[i] + "/.editorconfig",
                             "text": ("root = true\n\n" if lv["ec"] == "root" else "") + "[*.lua]\nindent_style = space\nindent_size = %d\n" % (20 + i)
                                     + ("\n[u*.lua]\nindent_size = %d\n" % (70 + i) if lv["ec"] == "perfile" else "")})
        s = {"id": "cs%d" % n, "cwd": names[3]}
        if sc["xdg"]:
            tree.append({"path": "gx/stylua.toml", "text": toml_for(31)})
        if sc["xdgs"]:
            tree.append({"path": "gx/stylua/stylua.toml", "text": toml_for(32)})
        if sc["xdg"] or sc["xdgs"]:
            s["xdg"] = "gx"
        if sc["home"]:
            tree.append({"path": "gh/.config/stylua.toml", "text": toml_for(33)})
        if sc["homes"]:
            tree.append({"path": "gh/.config/stylua/stylua.toml", "text": toml_for(34)})
        tree.append({"path": "gh/.keep", "text": ""})
        s["home_in_tree"] = "gh"
        argv = []
        if sc["config_path"]:
            tree.append({"path": "cfg40.toml", "text": toml_for(40)})
            argv += ["--config-path", "../../../cfg40.toml"]
        if sc["search_parent"]:
            argv.append("--search-parent-directories")
        if sc["no_ec"]:
            argv.append("--no-editorconfig")
        if sc["override"]:
            argv += ["--indent-type", "Spaces", "--indent-width", "50"]
        targets = []
        seen_paths = set()
        stdin = None
        for tg in c["targets"]:
            t = dict(tg)
            if tg["kind"] in ("file", "dirfile"):
                nm = ("u%d.lua" if tg.get("alt") else "t%d.lua") % tg["level"]
                pth = rel[tg["level"]] + nm
                if pth in seen_paths:
                    pth = rel[tg["level"]] + "u%d.lua" % tg["level"]
                seen_paths.add(pth)
                full = names[3] + "/" + pth
                tree.append({"path": full, "b64": None, "text": CFG_SRC.decode(), "expect": dict(cand), "class": "raw"})
                t["path"] = full
                if tg["kind"] == "file":
                    argv.append(pth)
            elif tg["kind"] == "stdin":
                stdin = {"text": CFG_SRC.decode()}
                argv.append("-")
            elif tg["kind"] == "stdinpath":
                stdin = {"text": CFG_SRC.decode()}
                argv += ["--stdin-filepath", rel[tg["level"]] + "t%d.lua" % tg["level"], "-"]
            targets.append(t)
        if any(t["kind"] == "dirfile" for t in targets):
            argv.append(".")
        for ent in tree:
            ent.pop("b64", None)
        s.update({"tree": tree, "argv": argv, "stdin": stdin, "stdout_expect": dict(cand) if stdin else None,
                  "meta": {"kind": "config", "sc": sc, "targets": targets, "expect": c["expect"], "impl": c["impl"],
                           "sig": "opts=%s;targets=%s" % ("+".join(k for k in ("config_path", "search_parent", "no_ec", "override") if sc[k]) or "none",
                                                          "+".join("%s%d" % (t["kind"], t["level"]) for t in targets))}})
        scenarios.append(s)
    return scenarios, st


def pat_text(p):
    t = {"name": p["v"], "dir": p["v"] + "/", "ext": "*." + p["v"], "anch": "/" + p["v"], "under": p["v"] + "/**"}[p["k"]]
    return ("!" if p["neg"] else "") + t


def src_selection(tier, seed):
    raw, st = tlc_generate("MC_Selection", "MC_Selection_%s.cfg" % tier, "g_selection_" + tier)
    raw.sort(key=lambda c: json.dumps(c, sort_keys=True))
    scenarios = []
    for n, c in enumerate(raw):
        sc = c["sc"]
        tree = []
        for k, pth in enumerate(sorted(c["universe"])):
            tree.append({"path": pth, "text": "local   u%d = %d\n" % (k, k), "tag": "cand", "class": "raw"})
        if sc["ig_root"]:
            tree.append({"path": ".ignore" if sc.get("igname") == "ignore" else ".styluaignore",
                         "text": "".join(pat_text(p) + "\n" for p in sc["ig_root"]), "class": "raw"})
        if sc["ig_src"]:
            tree.append({"path": "src/.styluaignore", "text": "".join(pat_text(p) + "\n" for p in sc["ig_src"]), "class": "raw"})
        argv = []
        if sc["respect"]:
            argv.append("--respect-ignores")
        if sc["allow_hidden"]:
            argv.append("--allow-hidden")
        for g in sc.get("globs", []):
            argv += ["-g", pat_text(g)]
        if sc.get("globs"):
            argv.append("--")
        argv += [a["path"] for a in sc["args"]]
        pk = "+".join(sorted(set(("!" if p["neg"] else "") + p["k"] for p in sc["ig_root"])) ) + "/" + "+".join(sorted(set(("!" if p["neg"] else "") + p["k"] for p in sc["ig_src"])))
        scenarios.append({"id": "sl%d" % n, "tree": tree, "argv": argv,
                          "meta": {"kind": "select", "sc": sc, "selected": sorted(c["selected"]), "maybe": sorted(c["maybe"]), "ignored": sorted(c.get("ignored", [])),
                                   "sig": "args=%s;flags=%s" % (sc["argset"], "+".join(k for k in ("respect", "allow_hidden") if sc[k]) or "none")
                                          + (";globs=%s" % sc["globset"] if sc.get("globset", "none") != "none" else "")
                                          + (";igname=.ignore" if sc.get("igname") == "ignore" else ""),
                                   "sig_ignore": pk}})
    return scenarios, st


LARGE_LINES = [2500]


SEG_TEXT = {
    "same": "local s%d = %d\n",
    "chg": "local   c%d   = %d\n",
    "expand": "local t%d = {\n%d, 2 }\n",
    "collapse": "local k%d = f(\n%d,\n2)\n",
    "blank": "\n\n\n",
    "move": "local zz%d = require(\"z%d\")\nlocal aa%d = require(\"a%d\")\n",
}


def seg_text(kind, i):
    t = SEG_TEXT[kind]
    return t % tuple([i] * t.count("%d"))


def _diff_scenarios(pairs):
    """pairs: list of (id, text, cfg dict (library), extra argv, meta sig)"""
    exp = _expected_formats([(pid, text.encode(), cfg) for pid, text, cfg, _, _ in pairs])
    scenarios = []
    for pid, text, cfg, extra_argv, sig in pairs:
        for fmt in ("unified", "json", "summary", "standard"):
            argv = ["--check"] + ([] if fmt == "standard" else ["--output-format", fmt]) + extra_argv + ["f.lua"]
            scenarios.append({"id": "%s:%s" % (pid, fmt), "tree": [{"path": "f.lua", "text": text, "expect": {"fmt": exp.get(pid)}, "class": "raw"}],
                              "argv": argv, "diff_facts": {"path": "f.lua"}, "want_stdout": False,
                              "meta": {"kind": "diff", "fmt": fmt, "sig": sig}})
    return scenarios


def src_diff(tier, seed):
    raw, st = tlc_generate("MC_Diff", "MC_Diff_%s.cfg" % tier, "g_diff_" + tier)
    raw.sort(key=lambda c: json.dumps(c, sort_keys=True))
    pairs = []
    for n, c in enumerate(raw):
        text = "".join(seg_text(k, i + 1) for i, k in enumerate(c["segs"]))
        sortreq = "move" in c["segs"]
        if c["flag"] == "crlf":
            text = text.replace("\n", "\r\n")
        elif c["flag"] == "nonl":
            text = text.rstrip("\n") if text.strip("\n") else text
        cfg = {"sort_requires": {"enabled": True}} if sortreq else {}
        pairs.append(("df%d" % n, text, cfg, ["--sort-requires"] if sortreq else [], "segs=%s;flag=%s" % ("+".join(sorted(set(c["segs"]))), c["flag"])))
    return _diff_scenarios(pairs), st


def src_diffcorpus(tier, seed):
    """(original, formatted) pairs from the repository's own test inputs at several widths."""
    import glob
    from sources import CORPUS_DIRS
    pairs = []
    widths = [120, 40] if tier == "quick" else [120, 80, 40, 20]
    for d, cfg in CORPUS_DIRS:
        for f in sorted(glob.glob(os.path.join(vlib.REPO, "tests", d, "*.lua"))):
            try:
                text = open(f, encoding="utf-8").read()
            except Exception:
                continue
            for w in widths:
                c = dict(cfg)
                c["column_width"] = w
                argv = ["--column-width", str(w), "--syntax", cfg.get("syntax", "All")]
                if cfg.get("collapse_simple_statement"):
                    argv += ["--collapse-simple-statement", cfg["collapse_simple_statement"]]
                pairs.append(("dc:%s/%s@%d" % (d, os.path.basename(f), w), text, c, argv, "corpus:%s/%s" % (d, os.path.basename(f))))
    return _diff_scenarios(pairs), {"module": "(corpus pairs)", "states": 0, "distinct": 0, "cases": len(pairs) * 4}


PROBE_PLAIN = ('local b = require("b")\nlocal a = require("a")\nlocal s = \'single\' .. "double" .. \'it"s\'\nf "str"\ng { 1 }\nh("p")\n'
               'function foo(x) return x end\nif x then return end\nfoo (1)\n'
               'local long = { aaaaaaaaaaaaaaaaaaaaaaaaaaaaaaaa, bbbbbbbbbbbbbbbbbbbbbbbbbbbbbbbbbbbbbbb, ccccccccccccccccccccccccccccccc, ddd }\n'
               'do\n\tlocal nested = { 1,\n2 }\nend\n')
PROBES = {
    "plain": PROBE_PLAIN,
    "spaces": PROBE_PLAIN, "spaces_tabwidth": PROBE_PLAIN, "spaces_othertab": PROBE_PLAIN,
    "lua52": "goto done\ndo   local x = 1 end\n::done::\n",
    "lua53": "local   x = 7 // 2 | 1\n",
    "lua54": "local   x <const> = 1\n",
    "luajit": "local   x = 1LL\n",
    "luau": "local   x: number = if a then 1 else 2\n",
}


def toml_value(e):
    if e["opt"] in ("column_width", "indent_width"):
        return e["v"]
    return '"%s"' % e["v"]


def lib_cfg(e, probe):
    cfg = {}
    if e["opt"] == "sort_requires":
        cfg["sort_requires"] = {"enabled": True}
    elif e["opt"] in ("column_width", "indent_width"):
        cfg[e["opt"]] = int(e["v"])
    elif e["opt"]:
        cfg[e["opt"]] = e["v"]
    if probe.startswith("spaces"):
        cfg["indent_type"] = "Spaces"
    return cfg


def src_carriers(tier, seed):
    raw, st = tlc_generate("MC_Carriers", "MC_Carriers_%s.cfg" % tier, "g_carriers_" + tier)
    raw.sort(key=lambda c: json.dumps(c, sort_keys=True))
    reqs = {}
    scenarios = []
    TABLE_BY_OPT = {}
    for c in raw:
        if c["kind"] == "carrier" and c["entry"] not in TABLE_BY_OPT.setdefault(c["entry"]["opt"], []):
            TABLE_BY_OPT[c["entry"]["opt"]].append(c["entry"])
    for n, c in enumerate(raw):
        e = c["entry"]
        probe = PROBES[e["probe"]]
        tree, argv = [], []
        names = ["p1.lua", "p2.lua"][: c["nfiles"]]
        if c["kind"] == "carrier":
            cfg = lib_cfg(e, e["probe"])
            key = json.dumps([e["probe"], cfg], sort_keys=True)
            reqs[key] = (probe, cfg)
            k = c["carrier"]
            base_toml = ""
            if e["probe"].startswith("spaces"):
                # indent width only shows with spaces: set through the same kind of carrier where possible
                if k in ("toml", "dottoml"):
                    base_toml = 'indent_type = "Spaces"\n'
                elif k.startswith("flag"):
                    argv += ["--indent-type", "Spaces"]
            if k in ("toml", "dottoml"):
                line = "[sort_requires]\nenabled = true\n" if e["opt"] == "sort_requires" else "%s = %s\n" % (e["opt"], toml_value(e))
                tree.append({"path": "stylua.toml" if k == "toml" else ".stylua.toml", "text": base_toml + line, "class": "raw"})
                # an .editorconfig saying something else for the same option has no effect once a stylua.toml is found
                other = next((x["ecval"] for x in TABLE_BY_OPT.get(e["opt"], []) if x["ecval"] and x["ecval"] != e["ecval"] and x["eckey"] == e["eckey"]), None)
                if e["eckey"] and (other or e["opt"] in ("column_width", "indent_width")):
                    tree.append({"path": ".editorconfig", "text": "root = true\n\n[*.lua]\n%s = %s\n" % (e["eckey"], other or "7"), "class": "raw"})
            elif k.startswith("flag"):
                v = e["v"]
                if k == "flag_lower":
                    v = v.lower()
                elif k == "flag_upper":
                    v = v.upper()
                argv += [e["flag"]] if e["opt"] == "sort_requires" else [e["flag"], v]
                # an unrelated stylua.toml is present: flags must still apply to every file of its directory
                tree.append({"path": "stylua.toml", "text": "column_width = 120\n" if e["opt"] != "column_width" else "indent_width = 4\n", "class": "raw"})
            elif k in ("ec", "ec_upper"):
                val = e["ecval"].upper() if k == "ec_upper" else e["ecval"]
                extra = "indent_style = space\n" if e["probe"].startswith("spaces") else ""
                if e["probe"] == "spaces_tabwidth":
                    extra += "indent_size = tab\n"
                elif e["probe"] == "spaces_othertab":
                    extra += "tab_width = 8\n"
                tree.append({"path": ".editorconfig", "text": "root = true\n\n[*.lua]\n%s%s = %s\n" % (extra, e["eckey"], val), "class": "raw"})
            for nm in names:
                tree.append({"path": nm, "text": probe, "tag": "probe", "class": "raw", "_key": key})
            argv += names
            sig = "opt=%s;v=%s;carrier=%s;n=%d" % (e["opt"], e["v"], k, c["nfiles"])
        else:
            mal = c["mal"]
            text = {"misspelt_key": "colum_width = 80\n", "wrong_type": 'column_width = "eighty"\n', "unknown_table": "[format]\nwidth = 3\n",
                    "invalid_enum": 'quote_style = "forcesingle"\n', "unknown_key_in_table": "[sort_requires]\nenable = true\n", "not_toml": "column_width 80 =\n"}[mal]
            d = "" if c["loc"] == "cwd" else "sub/"
            if c["carrier"] == "config_path":
                tree.append({"path": "cfg/bad.toml", "text": text, "class": "raw"})
                argv += ["--config-path", "cfg/bad.toml"]
            else:
                tree.append({"path": d + ("stylua.toml" if c["carrier"] == "toml" else ".stylua.toml"), "text": text, "class": "raw"})
            tree.append({"path": "first.lua", "text": "local   first = 1\n", "tag": "probe", "class": "raw"})
            tree.append({"path": d + "p1.lua", "text": "local   x = 1\n", "tag": "probe", "class": "raw"})
            tree.append({"path": d + "p2.lua", "text": "local   y = 1\n", "tag": "probe", "class": "raw"})
            argv += ["--num-threads", "1", d + "p1.lua", d + "p2.lua"] if c["loc"] == "cwd" else ["--num-threads", "1", "first.lua", d + "p1.lua", d + "p2.lua"]
            sig = "malformed;loc=%s" % c["loc"]
        scenarios.append({"id": "ca%d" % n, "tree": tree, "argv": argv, "meta": {"kind": "carrier", "c": c, "sig": sig}})
        if c["kind"] == "malformed" and c["loc"] == "subdir" and c["carrier"] != "config_path":
            # the same scenario under a forced schedule: the first file's result reaches the output thread before
            # the walker reports the malformed configuration file (the order that makes the race visible)
            scenarios.append({"id": "ca%d:sched" % n, "tree": json.loads(json.dumps(tree)), "argv": argv,
                              "sched": ["worker[first.lua]:start", "out:recv", "main:EXIT_CODE.store"],
                              "meta": {"kind": "carrier", "c": c, "sig": sig}})
    keys = list(reqs)
    exp = _expected_formats([("r%d" % i, reqs[k][0].encode(), reqs[k][1]) for i, k in enumerate(keys)])
    by_key = {k: exp.get("r%d" % i) for i, k in enumerate(keys)}
    for sc in scenarios:
        for ent in sc["tree"]:
            k = ent.pop("_key", None)
            if k is not None:
                ent["expect"] = {"fmt": by_key.get(k)}
    return scenarios, st


def stdin_input(cls, lines=None):
    if cls == "unformatted":
        return "local   x   =   1\nlocal t = {  1,2 }\ndo\nf()\nend\n"      # the block makes the indent settings visible
    if cls == "formatted":
        return "local x = 1\n"
    if cls == "invalid":
        return "local x = (\n"
    if cls == "empty":
        return ""
    if cls == "crlf":
        return "local   x = 1\r\ndo\r\n  f()\r\nend\r\n"
    if cls == "nonl":
        return "local   x = 1"
    if cls == "longtail":
        return "local   x = 1\nlocal s = \"" + "a" * 5000 + "\""
    if cls == "large":
        return "".join("local   v%d = { %d,%d }\n" % (i, i, i + 1) for i in range(lines or LARGE_LINES[0]))
    raise ValueError(cls)


def src_stdin(tier, seed):
    LARGE_LINES[0] = 2500 if tier == "quick" else 120000     # thorough: multi-megabyte
    raw, st = tlc_generate("MC_Stdin", "MC_Stdin_%s.cfg" % tier, "g_stdin_" + tier)
    raw.sort(key=lambda c: json.dumps(c, sort_keys=True))
    reqs, scenarios = [], []
    for cls in ("unformatted", "formatted", "empty", "crlf", "nonl", "large", "longtail"):
        reqs.append(("fmt:" + cls, stdin_input(cls).encode(), {}))
        reqs.append(("fmt_cfgdir:" + cls, stdin_input(cls).encode(), {"indent_type": "Spaces", "indent_width": 3}))
        reqs.append(("fmt_ecdir:" + cls, stdin_input(cls).encode(), {"indent_type": "Spaces", "indent_width": 5}))
        reqs.append(("fmt_range_end:" + cls, stdin_input(cls).encode(), {}, {"start": None, "end": 17}))
    lib = _expected_formats(reqs)
    for n, r in enumerate(raw):
        c = r["c"]
        # the diff of --check is quadratic in the number of changed lines (12 s for 10 000 lines with the unoptimised
        # hooked binary): the multi-megabyte input is used in write mode, a 10 000-line one in the check modes
        text = stdin_input(c["input"], lines=min(LARGE_LINES[0], 10000) if c["mode"] != "write" else None)
        tree = [{"path": "keep/other.lua", "text": "local   untouched = 1\n", "class": "raw"},
                {"path": ".styluaignore", "text": "build/\nignored.lua\n", "class": "raw"},
                {"path": "conf/stylua.toml", "text": 'indent_type = "Spaces"\nindent_width = 3\n', "class": "raw"},
                {"path": "ec/.editorconfig", "text": "[*.lua]\nindent_style = space\nindent_size = 5\n", "class": "raw"},
                {"path": "build/sub/deep", "kind": "dir"}, {"path": "src", "kind": "dir"}]
        argv = []
        pc = c["pathcase"]
        path = {"plain": "src/foo.lua", "ign1": "build/foo.lua", "ign2": "build/sub/foo.lua", "ign3": "build/sub/deep/foo.lua",
                "ignfile": "src/ignored.lua", "ign_norespect": "build/foo.lua", "cfgdir": "conf/foo.lua", "ecdir": "ec/foo.lua"}.get(pc)
        if pc in ("ign1", "ign2", "ign3", "ignfile", "plain"):
            argv.append("--respect-ignores")
        if path:
            argv += ["--stdin-filepath", path]
        if c["mode"] != "write":
            argv.append("--check")
            if c["mode"] != "check":
                argv += ["--output-format", c["mode"].split("_")[1]]
        if c["extra"] == "verify":
            argv.append("--verify")
        elif c["extra"] == "threads1":
            argv += ["--num-threads", "1"]
        elif c["extra"] == "range_end":
            argv += ["--range-end", "17"]       # a range with only one bound
        argv.append("-")
        exp = {"input": text, "fmt": lib.get("fmt:" + c["input"]), "fmt_cfgdir": lib.get("fmt_cfgdir:" + c["input"]),
               "fmt_ecdir": lib.get("fmt_ecdir:" + c["input"]),
               "fmt_range_end": lib.get("fmt_range_end:" + c["input"]) if c["mode"] == "write" or c["input"] != "large" else None}
        ekey = "fmt_range_end" if c["extra"] == "range_end" else "fmt_cfgdir" if pc == "cfgdir" else "fmt_ecdir" if pc == "ecdir" else "fmt"
        if c["mode"] != "write" and c["input"] == "large":
            # the check modes use the shorter large input: its formatted text is not in the table
            exp = dict(exp, **{ekey: None})
        dfacts = {"diff_facts": {"stdin": True, "expect_key": ekey}} if c["mode"] in ("check_unified", "check_json") and not r["expect"]["passthrough"] else {}
        scenarios.append({"id": "si%d" % n, "tree": tree, "argv": argv, "stdin": {"text": text}, "stdout_expect": exp, **dfacts, "timeout": 60 if c["input"] != "large" else 600,
                          "meta": {"kind": "stdin", "c": c, "expect": r["expect"],
                                   "sig": "input=%s;mode=%s;path=%s;extra=%s" % (c["input"], c["mode"], pc, c["extra"])}})
    return scenarios, st


EXIT_SCENARIOS = [
    # (name, [(file, class)], argv order): the missing path comes last so that the walker dispatches every file first
    ("diff+missing", [("a.lua", "unformatted"), ("m.lua", "missing")]),
    ("diff+parse", [("a.lua", "unformatted"), ("b.lua", "unparseable")]),
    ("diff+parse+missing+ok", [("a.lua", "unformatted"), ("b.lua", "unparseable"), ("c.lua", "formatted"), ("m.lua", "missing")]),
    ("two-diffs+missing", [("a.lua", "unformatted"), ("b.lua", "unformatted_multi"), ("m.lua", "missing")]),
]


def _extract_ops(events):
    """Per-role atomic operations on EXIT_CODE of a recorded free run: main's (before exit), and the output
    thread's grouped by the result they follow."""
    main_ops, results, cur = [], [], None
    starts = []
    for e in events:
        if e.get("ev") != "Hook":
            continue
        h = e["hev"]
        if h == "start":
            starts.append(os.path.basename(e.get("path", "")))
        if e.get("role") == "out" and h == "recv":
            cur = {"kind": e.get("kind"), "ops": []}
            results.append(cur)
        elif h.startswith("EXIT_CODE."):
            op = {"op": h.split(".", 1)[1], "arg": e.get("arg", 0), "expected": e.get("expected", 0)}
            if e.get("role") == "main":
                main_ops.append(op)
            elif e.get("role") == "out" and cur is not None:
                cur["ops"].append(op)
    # the main thread's final load (exit) is not interleaved
    if main_ops and main_ops[-1]["op"] == "load":
        main_ops = main_ops[:-1]
    return main_ops, results, starts


def src_exitcode(tier, seed):
    """C19: every interleaving of the traced accesses to the exit status, generated by TLC from the operation
    lists of a free run of the current binary, forced on the real binary."""
    binary = os.path.join(vlib.TARGET_CLI, "debug", "stylua")
    priv = clirun.have_setpriv()
    scenarios, stats = [], {"module": "MC_ExitCode", "states": 0, "distinct": 0, "wall": 0, "design_counterexamples": 0, "instances": []}
    for name, files in EXIT_SCENARIOS:
        tree = [{"path": f, "class": c, "i": k + 1} for k, (f, c) in enumerate(files)]
        meta_files = [{"path": f, "cls": c, "loc": "arg", "i": k + 1} for k, (f, c) in enumerate(files)]
        base = {"tree": tree, "argv": ["--check", "--num-threads", "4"] + [f for f, _ in files],
                "meta": {"files": meta_files, "mode": "check", "fmt": "standard", "verify": False, "threads": 4, "sortreq": False, "priv": priv,
                         "sig": "exitcode:" + name}}
        for ent in tree:
            if ent["class"] != "missing":
                ent["expect"] = {"fmt": None}
        # free run: one result per file in the order the output thread saw them
        evs = clirun.run_one(0, dict(base, id="free"), binary)
        main_ops, results, starts = _extract_ops(evs)
        kinds_by_file = {}
        # map results to files: kind diff -> unformatted files, error -> unparseable, complete -> formatted
        want = {"unformatted": "diff", "unformatted_multi": "diff", "unparseable": "error", "formatted": "complete"}
        pool = list(results)
        res_json = []
        for f, c in files:
            if c == "missing":
                continue
            k = want[c]
            r = next((x for x in pool if x["kind"] == k), None)
            if r is None:
                raise vlib.ToolError("free run of scenario %s did not produce a %s result for %s" % (name, k, f))
            pool.remove(r)
            res_json.append({"file": f, "ops": r["ops"]})
        expected = 2 if any(c in ("missing", "unparseable") for _, c in files) else 1
        ops_p = os.path.join(vlib.BUILD, "tlc", "exitcode_ops.p%d.json" % os.getpid())
        os.makedirs(os.path.dirname(ops_p), exist_ok=True)
        json.dump({"main": main_ops, "results": res_json, "expected": expected}, open(ops_p, "w"))
        r = vlib.tlc("MC_ExitCode", "MC_ExitCode.cfg", "g_exitcode", workers=1, env={"OPS": ops_p}, timeout=600)
        if r["rc"] != 0 or "No error has been found" not in r["tail"]:
            raise vlib.ToolError("MC_ExitCode failed for %s:\n%s" % (name, r["tail"][-2000:]))
        scheds = list(vlib.tlc_lines(r["out"], "CASE"))
        design = list(vlib.tlc_lines(r["out"], "DESIGN"))
        os.remove(r["out"])
        stats["states"] += r["states"]; stats["distinct"] += r["distinct"]; stats["wall"] += r["wall"]
        stats["design_counterexamples"] += len(design)
        stats["instances"].append({"scenario": name, "main_ops": main_ops, "results": res_json, "interleavings": len(scheds),
                                   "design_counterexamples": len(design)})
        for k, sc in enumerate(scheds):
            s2 = json.loads(json.dumps(base))
            s2["id"] = "xc:%s:%d" % (name, k)
            s2["sched"] = sc["sched"]
            s2["meta"]["model_exit"] = sc["model_exit"]
            s2["timeout"] = 60
            scenarios.append(s2)
    stats["cases"] = len(scenarios)
    stats["unbounded"] = _exitcode_unbounded(stats["instances"])
    return scenarios, stats


def _exitcode_unbounded(instances):
    """spec/ExitCodeProof.tla: for any number of files, results and threads the status is the maximum of what was
    reported - proved with TLAPS (and exhaustively by TLC: its state space is finite) under the assumption that every
    access is store(2), fetch_max(1) or load.  The assumption is checked here against the accesses recorded from the
    current binary; when it does not hold the theorem is not relied on (the bounded data-driven model decides)."""
    def in_vocab(o):
        return o["op"] == "load" or (o["op"] == "store" and o["arg"] == 2) or (o["op"] == "fetch_max" and o["arg"] == 1)
    ops = [o for inst in instances for o in inst["main_ops"]] + [o for inst in instances for r in inst["results"] for o in r["ops"]]
    outside = sorted(set("%s(%s)" % (o["op"], o["arg"]) for o in ops if not in_vocab(o)))
    res = {"theorem": "ExitCodeProof!Safety, NeverLowered", "recorded_accesses": len(ops), "outside_vocabulary": outside}
    if outside:
        res["status"] = "not applicable to this binary: accesses outside {store(2), fetch_max(1), load}"
        return res
    import shutil, subprocess, tempfile
    d = tempfile.mkdtemp(prefix="tlaps", dir=vlib.TMP)
    try:
        shutil.copy(os.path.join(vlib.SPEC, "ExitCodeProof.tla"), d)
        try:
            r = subprocess.run(["tlapm", "--threads", "4", "ExitCodeProof.tla"], cwd=d, capture_output=True, text=True, timeout=600)
            out = r.stdout + r.stderr
            m = re.search(r"All (\d+) obligations? proved", out)
            res["tlapm"] = ("all %s obligations proved" % m.group(1)) if m else "NOT PROVED: " + out[-400:]
        except (OSError, subprocess.TimeoutExpired) as ex:
            res["tlapm"] = "tlapm did not run: %s" % ex
        t = vlib.tlc("ExitCodeProof", "ExitCodeProof.cfg", "exitcode_proof", workers=1, timeout=300,
                     jvm=["-DTLA-Library=/opt/veriftools/tlapm/lib/tlapm/stdlib"])
        res["tlc"] = "%d distinct states, %s" % (t["distinct"], "no error" if "No error has been found" in t["tail"] else "ERROR: " + t["tail"][-300:])
        try:
            os.remove(t["out"])
        except OSError:
            pass
        ok = res.get("tlapm", "").startswith("all") and res["tlc"].endswith("no error")
        res["status"] = "holds for unbounded files/threads" if ok else "proof attempt failed (see fields); bounded model decides"
        if not res["tlc"].endswith("no error"):
            raise vlib.ToolError("ExitCodeProof: TLC reports an error: " + res["tlc"])
    finally:
        shutil.rmtree(d, ignore_errors=True)
    return res


def src_threads(tier, seed):
    """C19: free-running --num-threads sweep over a mixed file set."""
    priv = clirun.have_setpriv()
    files = [("a.lua", "unformatted"), ("b.lua", "unparseable"), ("c.lua", "formatted"), ("e.lua", "unformatted_multi"), ("m.lua", "missing")]
    scenarios = []
    reps = 2 if tier == "quick" else 6
    for mode in ("check", "write"):
        for t in range(1, 17):
            for rep in range(reps):
                for order in (files, files[::-1]):
                    tree = [{"path": f, "class": c, "i": k + 1} for k, (f, c) in enumerate(order)]
                    scenarios.append({"id": "th:%s:%d:%d" % (mode, t, rep), "tree": tree,
                                      "argv": (["--check"] if mode == "check" else []) + ["--num-threads", str(t)] + [f for f, _ in order],
                                      "meta": {"files": [{"path": f, "cls": c, "loc": "arg", "i": k + 1} for k, (f, c) in enumerate(order)],
                                               "mode": mode, "fmt": "standard", "verify": False, "threads": t, "sortreq": False, "priv": priv,
                                               "sig": "threads"}})
    items = []
    for n, sc in enumerate(scenarios):
        for ent in sc["tree"]:
            if ent["class"] != "missing":
                items.append(("%d|%s" % (n, ent["path"]), clirun.content_for(ent["class"], ent["i"]), {}))
    exp = _expected_formats(items)
    for n, sc in enumerate(scenarios):
        for ent in sc["tree"]:
            if ent["class"] != "missing":
                ent["expect"] = {"fmt": exp.get("%d|%s" % (n, ent["path"]))}
    # second family: directories with their own configuration (indent settings differ), nested blocks so that the
    # indentation is visible; per directory one file to rewrite and one already formatted under that directory's settings.
    # Whatever a worker thread formatted before must not leak into the next file it picks up.
    dirs = [("p2", "Spaces", 2), ("p4", "Spaces", 4), ("p8", "Spaces", 8), ("pt", "Tabs", 4)]
    body = "if x then\nlocal   v%d = %d\nif y then\nf(  %d )\nend\nend\n"
    lib = _expected_formats([("%s|%s" % (d, kind), (body % (k, k, k + (7 if kind == "k" else 0))).encode(), {"indent_type": it, "indent_width": iw})
                             for k, (d, it, iw) in enumerate(dirs) for kind in ("u", "k")])
    fam = []
    for k, (d, it, iw) in enumerate(dirs):
        fam.append((d + "/stylua.toml", "raw", 'indent_type = "%s"\nindent_width = %d\n' % (it, iw), None))
        fam.append((d + "/u.lua", "unformatted", body % (k, k, k), lib.get(d + "|u")))
        fam.append((d + "/k.lua", "formatted", lib.get(d + "|k"), lib.get(d + "|k")))
    lua = [(p_, c) for p_, c, _, _ in fam if c != "raw"]
    if all(t is not None for _, _, t, _ in fam):
        for mode in ("check", "write"):
            for t in range(1, 17):
                for rep in range(reps):
                    for oi, order in enumerate((lua, lua[::-1], sorted(lua, key=lambda x: x[0][::-1]))):
                        tree = [dict({"path": p_, "class": c, "text": txt}, **({"expect": {"fmt": e}} if e is not None else {})) for p_, c, txt, e in fam]
                        scenarios.append({"id": "thc:%s:%d:%d:%d" % (mode, t, rep, oi), "tree": tree,
                                          "argv": (["--check"] if mode == "check" else []) + ["--num-threads", str(t)] + [f for f, _ in order],
                                          "meta": {"files": [{"path": f, "cls": c, "loc": "arg", "i": k + 1} for k, (f, c) in enumerate(order)],
                                                   "mode": mode, "fmt": "standard", "verify": False, "threads": t, "sortreq": False, "priv": priv,
                                                   "sig": "threads-configs"}})
    # third family: pairs of files that share a directory and a stem (mod1.lua / mod1.luau): whatever scratch names or
    # per-file resources a worker derives from a path must not collide between two files handled at the same time
    pairs = [("same/mod%d.%s" % (k, ext), "unformatted") for k in range(1, 7) for ext in ("lua", "luau")] + [("same/deep.lua", "unformatted")]
    ptexts = {p_: "local   m%d   =   { %d,%d }\nlocal function f%d( a,b )\nreturn a+b\nend\n" % (i, i, i + 1, i) for i, (p_, _) in enumerate(pairs)}
    # moderately nested (12 blocks; the unoptimised hooked binary overflows a 2 MiB worker stack between 17 and 20):
    # what a worker can format must not depend on how many workers there are
    ptexts["same/deep.lua"] = "do\n" * 12 + "local   d   =   1\n" + "end\n" * 12
    plib = _expected_formats([(p_, ptexts[p_].encode(), {"syntax": "All"}) for p_, _ in pairs])
    if all(plib.get(p_) is not None for p_, _ in pairs):
        for t in range(1, 17):
            for rep in range(reps):
                for oi, order in enumerate((pairs, pairs[::-1])):
                    tree = [{"path": p_, "class": c, "text": ptexts[p_], "expect": {"fmt": plib[p_]}} for p_, c in pairs]
                    scenarios.append({"id": "thp:%d:%d:%d" % (t, rep, oi), "tree": tree,
                                      "argv": ["--num-threads", str(t)] + [f for f, _ in order],
                                      "meta": {"files": [{"path": f, "cls": c, "loc": "arg", "i": k + 1} for k, (f, c) in enumerate(order)],
                                               "mode": "write", "fmt": "standard", "verify": False, "threads": t, "sortreq": False, "priv": priv,
                                               "sig": "threads-same-stem"}})
    return scenarios, {"module": "(thread-count sweep)", "states": 0, "distinct": 0, "cases": len(scenarios)}


SOURCES = {
    "carriers": src_carriers,
    "diff": src_diff,
    "diffcorpus": src_diffcorpus,
    "stdin": src_stdin,
    "selection": src_selection,
    "configsearch": src_configsearch,
    "clifiles": src_clifiles,
    "exitcode": src_exitcode,
    "threads": src_threads,
}


