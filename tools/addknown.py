#!/usr/bin/env python3
"""development helper: merge candidate entries (from check --triage --emit-known) into known_findings.json
usage: addknown.py candidates.json "class description" """
import json, sys, os
root = os.path.dirname(os.path.dirname(os.path.abspath(__file__)))
p = os.path.join(root, "known_findings.json")
k = json.load(open(p)) if os.path.exists(p) else {"findings": [], "fixed": []}
have = {(f["property"], f["signature"]) for f in k["findings"]}
cls = sys.argv[2] if len(sys.argv) > 2 else ""
n = 0
for c in json.load(open(sys.argv[1])):
    if (c["property"], c["signature"]) in have:
        continue
    c["what"] = (cls + ": " if cls else "") + c["signature"]
    c["class"] = cls
    k["findings"].append(c)
    n += 1
k["findings"].sort(key=lambda f: (f["property"], f["signature"]))
json.dump(k, open(p, "w"), indent=1)
print("added", n, "total", len(k["findings"]))
