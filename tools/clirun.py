"""R stage for the command-line properties: materialise a scenario (directory tree, configuration
files, argv, stdin, forced schedule) outside any git repository, run the hooked stylua binary,
and record an ndjson trace: Start, the binary's own hook events, Final (observations)."""
import json, os, re, shutil, stat, subprocess, tempfile, hashlib, base64, time
from concurrent.futures import ThreadPoolExecutor
import vlib

NOBODY = 65534


def have_setpriv():
    return os.geteuid() == 0 and shutil.which("setpriv") is not None


def content_for(cls, i):
    """Deterministic file contents per class; every file is distinguishable."""
    if cls == "formatted":
        return ("local v%d = %d\n" % (i, i)).encode()
    if cls == "unformatted":
        return ("local   v%d   =   %d\n" % (i, i)).encode()
    if cls == "unformatted_multi":
        return ("local   v%d   =   %d\nlocal t%d = {\n%d, %d }\nlocal w%d = 2\nlocal    z%d = 3\nreturn    v%d\n" % (i, i, i, i, i + 1, i, i, i)).encode()
    if cls == "crlf":
        # differs from its formatted form (default line_endings = Unix) only in the line terminators
        return ("local v%d = %d\r\nlocal w%d = 2\r\n" % (i, i, i)).encode()
    if cls == "unparseable":
        return ("local v%d = (\n" % i).encode()
    if cls == "nonutf8":
        return b"local v = '\xff\xfe'\n"
    if cls == "verifyfail":
        # with --verify --sort-requires the sorted output's AST differs from the input's
        return ("local   b%d = require(\"b\")\nlocal a%d = require(\"a\")\n" % (i, i)).encode()
    if cls in ("unreadable", "readonly", "crash"):
        return ("local   v%d   =   %d\n" % (i, i)).encode()
    if cls == "empty":
        return b""
    if cls == "nonl":
        # differs from its formatted form only in the missing final newline
        return ("local v%d = %d" % (i, i)).encode()
    if cls == "text":
        return ("not lua %d {{{\n" % i).encode()
    raise ValueError(cls)


def sha(b):
    return hashlib.sha1(b).hexdigest()[:16]


def snapshot(root):
    snap = {}
    for dp, dn, fn in os.walk(root):
        for n in fn:
            p = os.path.join(dp, n)
            rel = os.path.relpath(p, root)
            try:
                st = os.lstat(p)
                with open(p, "rb") as f:
                    b = f.read()
                snap[rel] = {"sha": sha(b), "mtime": st.st_mtime_ns, "mode": stat.S_IMODE(st.st_mode), "bytes": b}
            except Exception as e:
                snap[rel] = {"sha": "?", "mtime": 0, "mode": 0, "bytes": b"", "err": str(e)}
    return snap


def materialise(base, sc):
    tree = os.path.join(base, "tree")
    os.makedirs(tree)
    os.makedirs(os.path.join(base, "home"))
    os.makedirs(os.path.join(base, "aux"))
    late = []
    for ent in sc.get("tree", []):
        p = os.path.join(tree, ent["path"])
        if ent.get("kind") == "dir":
            os.makedirs(p, exist_ok=True)
            continue
        if ent.get("class") == "missing":
            continue
        os.makedirs(os.path.dirname(p), exist_ok=True)
        if "text" in ent:
            data = ent["text"].encode()
        elif "b64" in ent:
            data = base64.b64decode(ent["b64"])
        else:
            data = content_for(ent["class"], ent.get("i", 0))
        with open(p, "wb") as f:
            f.write(data)
        late.append((p, ent))
    # old mtimes so that a rewrite is observable even within the same clock tick
    for dp, dn, fn in os.walk(tree):
        for n in fn:
            os.utime(os.path.join(dp, n), ns=(10**18, 10**18))
    if have_setpriv():
        for dp, dn, fn in os.walk(base):
            os.chown(dp, NOBODY, NOBODY)
            for n in fn:
                os.chown(os.path.join(dp, n), NOBODY, NOBODY)
    for p, ent in late:
        if ent.get("class") == "unreadable":
            os.chmod(p, 0o000)
        elif ent.get("class") == "readonly":
            os.chmod(p, 0o444)
        elif "mode" in ent:
            os.chmod(p, int(ent["mode"], 8))
    return tree


def parse_stdout(fmt, out_bytes, check):
    """Which files got a diff, and structured hunks for C18."""
    txt = out_bytes.decode("utf-8", "replace")
    info = {"diff_files": [], "n_diffs": 0}
    if not check:
        return info
    if fmt == "json":
        recs = []
        for line in txt.splitlines():
            line = line.strip()
            if line.startswith("{"):
                try:
                    recs.append(json.loads(line))
                except Exception:
                    pass
        info["diff_files"] = sorted(r.get("file", "") for r in recs)
        info["n_diffs"] = len(recs)
        info["json"] = recs
    elif fmt == "unified":
        info["n_diffs"] = len(re.findall(r"^--- old$", txt, re.M))
        info["unified"] = txt
    elif fmt == "summary":
        lines = [l for l in txt.splitlines() if l.strip()]
        body = [l for l in lines if not ("Checking formatting" in l or "Code style issues" in l or "correctly formatted" in l)]
        info["diff_files"] = sorted(body)
        info["n_diffs"] = len(body)
        info["summary_footer_ok"] = any(("Code style issues" in l) or ("correctly formatted" in l) for l in lines)
    else:
        files = re.findall(r"^Diff in (.*):$", txt, re.M)
        info["diff_files"] = sorted(files)
        info["n_diffs"] = len(files)
    return info


def split_lines(text):
    """Lines including their terminator (split on \\n only, like `similar`)."""
    out, i = [], 0
    while i < len(text):
        j = text.find("\n", i)
        if j < 0:
            out.append(text[i:])
            break
        out.append(text[i:j + 1])
        i = j + 1
    return out


def diff_facts(sc, before, so, out_bytes):
    """C18 facts: old / new as sequences of line identifiers, the printed hunks / mismatches in the same terms."""
    if sc["diff_facts"].get("stdin"):
        # stdin mode: the checked text is what was piped in, the formatted text the library's output for it
        old = sc["stdin"]["text"]
        new = (sc.get("stdout_expect") or {}).get(sc["diff_facts"]["expect_key"])
    else:
        path = sc["diff_facts"]["path"]
        ent = next(e for e in sc["tree"] if e["path"] == path)
        old = before[path]["bytes"].decode("utf-8", "replace")
        new = (ent.get("expect") or {}).get("fmt")
    ids = {}

    def lid(line):
        return ids.setdefault(line, len(ids) + 1)

    f = {"old": [lid(l) for l in split_lines(old)], "same": new is not None and old == new}
    f["new"] = [lid(l) for l in split_lines(new)] if new is not None else []
    f["have_new"] = new is not None
    if "unified" in so:
        hunks, cur = [], None
        lines = so["unified"].split("\n")
        k = 0
        while k < len(lines):
            ln = lines[k]
            m = re.match(r"^@@ -(\d+)(?:,(\d+))? \+(\d+)(?:,(\d+))? @@", ln)
            if m:
                cur = {"old_start": int(m.group(1)), "old_len": int(m.group(2) or 1), "new_start": int(m.group(3)), "new_len": int(m.group(4) or 1), "lines": []}
                hunks.append(cur)
            elif cur is not None and ln[:1] in (" ", "-", "+"):
                content = ln[1:]
                nonl = k + 1 < len(lines) and lines[k + 1].startswith("\\ No newline")
                cur["lines"].append({"tag": ln[0], "id": lid(content if nonl else content + "\n")})
            k += 1
        # a trailing empty split element is not a line
        f["hunks"] = hunks
    if "json" in so:
        ms = []
        for rec in so["json"]:
            for m in rec.get("mismatches", []):
                ms.append({"os": m["original_start_line"], "oe": m["original_end_line"], "es": m["expected_start_line"], "ee": m["expected_end_line"],
                           "exp": [lid(l) for l in split_lines(m["expected"])], "orig": [lid(l) for l in split_lines(m["original"])],
                           "is_insert": m["original"] == "", "is_delete": m["expected"] == ""})
        f["mismatches"] = ms
    f["n_ids"] = len(ids)
    return f


def run_one(idx, sc, binary, keep=False):
    base = tempfile.mkdtemp(prefix="stylua-verif-")
    evs = []
    try:
        tree = materialise(base, sc)
        trace_p = os.path.join(base, "aux", "trace.ndjson")
        before = snapshot(tree)
        env = {"PATH": os.environ.get("PATH", "/usr/bin:/bin"), "HOME": os.path.join(base, "home"),
               "XDG_CONFIG_HOME": os.path.join(tree, sc["xdg"]) if sc.get("xdg") else os.path.join(base, "home", ".config"),
               "TMPDIR": os.path.join(base, "aux"), "STYLUA_VERIF_TRACE": trace_p, "NO_COLOR": "1"}
        if sc.get("home_in_tree"):
            env["HOME"] = os.path.join(tree, sc["home_in_tree"])
        if sc.get("sched"):
            env["STYLUA_VERIF_SCHED"] = ",".join(sc["sched"])
        if sc.get("panic"):
            env["STYLUA_VERIF_PANIC"] = ",".join(sc["panic"])
        cmd = [binary] + sc["argv"]
        if have_setpriv():
            cmd = ["setpriv", "--reuid=%d" % NOBODY, "--regid=%d" % NOBODY, "--clear-groups"] + cmd
        stdin_b = None
        if sc.get("stdin") is not None:
            st = sc["stdin"]
            stdin_b = st["text"].encode() if "text" in st else (base64.b64decode(st["b64"]) if "b64" in st else content_for(st["class"], st.get("i", 0)))
        t0 = time.time()
        try:
            r = subprocess.run(cmd, cwd=os.path.join(tree, sc.get("cwd", ".")), env=env, input=stdin_b if stdin_b is not None else b"",
                               capture_output=True, timeout=sc.get("timeout", 30))
            rc, out, err = r.returncode, r.stdout, r.stderr
            timed_out = False
        except subprocess.TimeoutExpired as e:
            rc, out, err, timed_out = 124, e.stdout or b"", e.stderr or b"", True
        wall = time.time() - t0
        # restore permissions so that the snapshot can read everything
        for dp, dn, fn in os.walk(tree):
            for n in fn:
                try:
                    os.chmod(os.path.join(dp, n), 0o644)
                except OSError:
                    pass
        after = snapshot(tree)
        evs.append({"ev": "Start", "idx": idx, "id": sc.get("id", str(idx)), "meta": sc.get("meta", {}), "argv": sc["argv"],
                    "setpriv": have_setpriv()})
        if os.path.exists(trace_p):
            for line in open(trace_p, errors="replace"):
                line = line.strip()
                if not line:
                    continue
                try:
                    h = json.loads(line)
                except Exception:
                    continue
                h["hev"] = h.pop("ev")
                h["ev"] = "Hook"
                h["idx"] = idx
                # paths relative to the tree
                if "path" in h:
                    h["path"] = os.path.normpath(os.path.join(sc.get("cwd", "."), h["path"])) if not os.path.isabs(h["path"]) else os.path.relpath(h["path"], tree)
                evs.append(h)
        files = []
        for ent in sc.get("tree", []):
            if ent.get("kind") == "dir":
                continue
            rel = ent["path"]
            b, a = before.get(rel), after.get(rel)
            rec = {"path": rel, "cls": ent.get("class", "raw"), "tag": ent.get("tag", ""), "existed": b is not None, "exists": a is not None}
            if b is not None and a is not None:
                rec["same_bytes"] = b["sha"] == a["sha"]
                rec["same_mtime"] = b["mtime"] == a["mtime"]
                exp = ent.get("expect", {})
                rec["matches"] = sorted(k for k, v in exp.items() if v is not None and sha(v.encode("utf-8", "surrogateescape") if isinstance(v, str) else v) == a["sha"])
            files.append(rec)
        created = sorted(set(after) - set(before))
        deleted = sorted(set(before) - set(after))
        fmt = "standard"
        for i, a_ in enumerate(sc["argv"]):
            if a_.startswith("--output-format="):
                fmt = a_.split("=", 1)[1].lower()
            elif a_ in ("--output-format", "-f") and i + 1 < len(sc["argv"]):
                fmt = sc["argv"][i + 1].lower()
        check = "--check" in sc["argv"] or "-c" in sc["argv"]
        so = parse_stdout(fmt, out, check)
        fin = {"ev": "Final", "idx": idx, "id": sc.get("id", str(idx)), "exit": rc, "timed_out": timed_out, "wall_ms": int(wall * 1000),
               "stdout_len": len(out), "stdout_sha": sha(out), "stderr_len": len(err),
               "stderr_error_lines": len(re.findall(rb"^error", err, re.M)) + err.count(b'"type":"error"') + err.count(b'"type":"parse_error"'),
               "panicked": b"panicked at" in err,
               "files": files, "created": created, "deleted": deleted, "diff_files": so["diff_files"], "n_diffs": so["n_diffs"],
               "format": fmt, "check": check}
        if sc.get("stdout_expect") is not None:
            fin["stdout_matches"] = sorted(k for k, v in sc["stdout_expect"].items() if v is not None and v.encode() == out)
        if sc.get("want_stdout") or len(out) <= 400:
            fin["stdout"] = out.decode("utf-8", "replace")
        if len(err) <= 600:
            fin["stderr"] = err.decode("utf-8", "replace")
        for k in ("json", "unified", "summary_footer_ok"):
            if k in so:
                fin["so_" + k] = so[k]
        if sc.get("diff_facts"):
            fin["diff"] = diff_facts(sc, before, so, out)
        fin["extra"] = sc.get("extra", {})
        evs.append(fin)
    finally:
        if not keep:
            for dp, dn, fn in os.walk(base):
                try:
                    os.chmod(dp, 0o755)
                except OSError:
                    pass
            shutil.rmtree(base, ignore_errors=True)
    return evs


def _run_chunk(args):
    binary, items = args
    return [run_one(i, sc, binary) for i, sc in items]


def run_scenarios(scenarios, binary, trace_path, jobs=14):
    t0 = time.time()
    items = list(enumerate(scenarios))
    if len(items) <= 4:
        results = [run_one(i, sc, binary) for i, sc in items]
    else:
        from concurrent.futures import ProcessPoolExecutor
        size = max(1, min(50, len(items) // (jobs * 4) + 1))
        chunks = [(binary, items[k:k + size]) for k in range(0, len(items), size)]
        with ProcessPoolExecutor(max_workers=jobs) as ex:
            results = [r for chunk in ex.map(_run_chunk, chunks) for r in chunk]
    with open(trace_path, "w") as f:
        for evs in results:
            for e in evs:
                f.write(json.dumps(e, separators=(",", ":")) + "\n")
    return time.time() - t0


def libfmt_batch(items):
    """items: list of dict(id, src, cfg[, verify]); returns id -> (outcome, out)."""
    if not items:
        return {}
    inp = "\n".join(json.dumps(i) for i in items) + "\n"
    r = subprocess.run([vlib.VH, "libfmt"], input=inp.encode(), capture_output=True)
    out = {}
    for line in r.stdout.decode("utf-8", "replace").splitlines():
        if line.strip():
            v = json.loads(line)
            out[v["id"]] = (v["outcome"], v.get("out"))
    return out
