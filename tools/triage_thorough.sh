#!/bin/sh
# development helper: triage every property at the thorough tier, candidates to /tmp/kt_<ID>.json
cd "$(dirname "$0")/.."
for p in C05 C06 C01 C02 C03 C07 C04 C08 C09 C10 C11 C12 C13 C14 C19 C15 C16 C17 C18 C20; do
  /usr/bin/time -f "$p wall %es" ./check $p --tier thorough --triage --emit-known /tmp/kt_$p.json 2>&1 | grep -E "TOOL|triage:|wall|^C[0-9][0-9]:" | sed "s/^/$p /"
done
