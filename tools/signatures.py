"""Compact, stable signatures of violating cases (for known_findings.json) and one-line examples."""
import re, json
from vlib import abstract_text


def _ev(events, name):
    for e in events:
        if e.get("ev") == name:
            return e
    return {}


def strip_pos(msg):
    msg = re.sub(r"\(\d+:\d+ to \d+:\d+\)", "", msg or "")
    msg = re.sub(r"\d+", "N", msg)
    return re.sub(r"\s+", " ", msg).strip()[:120]


def layout_change(a, b):
    """Class of a pass-1 -> pass-2 layout change from the first differing line."""
    ta, tb = abstract_text(a).split(), abstract_text(b).split()
    first = ta[0] if ta else (tb[0] if tb else "")
    if not re.match(r"^[a-z]+$", first) or first == "v":
        first = "v" if re.match(r"^[A-Za-z_]", first) else first[:1]
    np = lambda t: [x for x in " ".join(t).replace("(", " ").replace(")", " ").split()]
    if ta != tb and np(ta) == np(tb):
        return "parentheses %s on pass 2 in `%s ...`" % ("dropped" if len("".join(ta)) > len("".join(tb)) else "added", first)
    if tb and ta[:len(tb)] == tb and len(ta) > len(tb):
        return "line split after `%s` in `%s ...`" % (tb[-1][-1:], first)
    if ta and tb[:len(ta)] == ta and len(tb) > len(ta):
        return "lines joined after `%s` in `%s ...`" % (ta[-1][-1:], first)
    if not ta and not tb:
        return "blank line / whitespace"
    if ta == tb:
        return "indentation of `%s ...`" % first
    return "`%s` line => `%s` line" % (ta[0] if ta else "", tb[0] if tb else "")


def lit_features(e):
    body = e.get("body", [])
    feats = []
    if e.get("kind") == "longlit":
        # a CR that is not the first half of a CR LF pair
        lone = any(c == "CR" and (i + 1 >= len(body) or body[i + 1] != "LF") for i, c in enumerate(body))
        if lone:
            feats.append("lone CR")
        elif "CR" in body:
            feats.append("CRLF pairs only")
    elif e.get("kind") == "strlit":
        raw_nl = any(c in ("LF", "CR") and (i == 0 or body[i - 1] != "BS") for i, c in enumerate(body))
        if raw_nl:
            feats.append("raw newline admitted after an escape")
        # `\z` directly followed by an escape the rewrite considers unnecessary (`"\z\ "`): dropping the backslash
        # makes the character part of the whitespace that \z skips
        def z_then_escape(i):
            # body[i] = BS, body[i+1] = z: skip the whitespace \z skips; is the next thing another backslash?
            j = i + 2
            while j < len(body) and body[j] in ("SP", "LF", "CR"):
                j += 1
            return j < len(body) and body[j] == "BS"
        if any(c == "BS" and i + 1 < len(body) and body[i + 1] == "z" and (i == 0 or body[i - 1] != "BS") and z_then_escape(i) for i, c in enumerate(body)):
            feats.append("\\z followed by an escape")
        escs = sorted(set(body[i + 1] for i, c in enumerate(body[:-1]) if c == "BS" and body[i + 1] in ("u", "x") and (i == 0 or body[i - 1] != "BS")))
        if escs:
            feats.append("escapes:" + "".join(escs))
    else:
        feats.append(e.get("syntax", ""))
    return ",".join(feats)


DEFAULTS = {"call_parentheses": "Always", "collapse_simple_statement": "Never", "space_after_function_names": "Never",
            "quote_style": "AutoPreferDouble", "indent_type": "Tabs", "line_endings": "Unix", "indent_width": 4}


def options_tag(cfgs):
    """cfgs: configurations of all failing variants of one case for one verdict. Empty when the failure also
    occurs with every swept option at its default; otherwise the option values the failing variants share."""
    def nondefault(c):
        return {k: v for k, v in c.items() if k in DEFAULTS and v != DEFAULTS[k]}
    nds = [nondefault(c) for c in cfgs]
    if any(not n for n in nds):
        return ""
    keys = sorted(set(k for n in nds for k in n))
    parts = []
    for k in keys:
        vals = set(json.dumps(n.get(k, DEFAULTS[k])) for n in nds)
        if len(vals) == 1 and all(k in n for n in nds):
            parts.append("%s=%s" % (k, nds[0][k]))
    return ",".join(parts) if parts else "non-default options"


def stmt_tag(case, events, i):
    f = _ev(events, "Format")
    recs = (f.get("stmts") or {}).get("recs") or []
    meta = case.get("meta", {}) or {}
    tag = ""
    if i and 0 < i <= len(recs):
        r = recs[i - 1]
        nxt = ""
        for o in recs[i:]:
            if len(o["path"]) == len(r["path"]) and o["path"][:-1] == r["path"][:-1]:
                nxt = o["kind"]
                break
        pc = "pcall" in (meta.get("prog") or [])
        tag = "k=%s,semi=%d,depth=%d,next=%s%s" % (r["kind"], 1 if r.get("semi") else 0, len(r["path"]) // 2, nxt or "-", ",paren-call-present" if pc else "")
    devs = sorted(set("%s:%s" % (d["t"], (d["x"].split(":")[0] + "/" + d.get("y", "").split(":")[0]) if d["t"] == "range" else d["x"]) for d in meta.get("devs", [])))
    if devs:
        tag += ";devs=" + ",".join(devs)
    return tag


_FAMILY = {"oscillation": "nofix", "late_convergence": "nofix", "not_a_fixpoint": "nofix"}
_SLOT_RE = re.compile(r"^(trivia|layout)\|([a-z_0-9]+)\|((?:line|block|long|ownline|ownlinec|mlmixed)@[^|;]*\|[^|;]*)(?:[;|]|$)")


def slot_prefix(sig):
    """(source, verdict family, 'kind@prev|next') of a signature that carries exactly one comment slot, else None."""
    m = _SLOT_RE.match(sig)
    if not m:
        return None
    rest = sig[m.end(3):]
    # a second slot follows directly after ';' only in signatures of two-comment cases
    if re.match(r";(?:line|block|long|ownline|ownlinec|mlmixed)@", rest):
        return None
    what = m.group(2)
    what = _FAMILY.get(what, "nofix" if what.startswith("second_pass") else what)
    return (m.group(1), what, m.group(3))


def single_comment_variants(pid, what, source, case, events, i=0, opts_tag=""):
    """For a case with several injected comments: the signatures it would have with each comment alone.
    A failure of a pair is already explained when one of its comments fails alone in the same way."""
    rd = _ev(events, "Render")
    ctx = rd.get("slot_ctx") or []
    if len(ctx) < 2:
        return []
    out = []
    for c in ctx:
        ev2 = [dict(e, slot_ctx=[c]) if e.get("ev") == "Render" else e for e in events]
        out.append(signature(pid, what, source, case, ev2, i, opts_tag))
    return out


def signature(pid, what, source, case, events, i=0, opts_tag=""):
    if _ev(events, "Format").get("sort") and what not in ("reparse", "meaning", "tokens", "census"):
        meta = case.get("meta", {}) or {}
        devs = sorted(set("%s:%s" % (d["t"], (d["x"].split(":")[0] + "/" + d.get("y", "").split(":")[0]) if d["t"] == "range" else d["x"]) for d in meta.get("devs", [])))
        kinds = "".join(sorted(set(i["k"] for i in meta.get("prog", []))))
        return "%s|%s|items=%s;devs=%s" % (source if source != "corpus" else str(case.get("id")), what, kinds, ",".join(devs))
    if pid in ("C08", "C09") and _ev(events, "Format").get("stmts"):
        return "%s|%s|%s" % (source, what, stmt_tag(case, events, i))
    lit = _ev(events, "Lit")
    if lit:
        pos = lit.get("pos", "")
        return "%s|%s|%s|%s%s" % (source, what, lit.get("kind"), lit_features(lit), (";pos=" + pos) if pos.endswith("_par") or pos.endswith("_cat") else "")
    f, r, x = _ev(events, "Format"), _ev(events, "Reparse"), _ev(events, "Reformat")
    meta = case.get("meta", {}) or {}
    tag = meta.get("sig") or ""
    rd = _ev(events, "Render")
    if source == "corpus":
        tag = str(case.get("id", "")).replace("corpus:", "")
    if rd.get("slot_ctx"):
        tag = ";".join("%s@%s|%s" % (c["kind"], c["prev"], c["next"]) for c in rd["slot_ctx"])
        if opts_tag:
            tag += ";" + opts_tag
    if source == "sortrequires" and meta.get("prog") is not None:
        # statement kinds and deviations of the generated sequence (as for the sorting verdicts), sorting on / off
        devs = sorted(set("%s:%s" % (d["t"], (d["x"].split(":")[0] + "/" + d.get("y", "").split(":")[0]) if d["t"] == "range" else d["x"]) for d in meta.get("devs", [])))
        kinds = "".join(sorted(set(i_["k"] for i_ in meta.get("prog", []))))
        tag = (tag + ";" if tag else "") + "items=%s;devs=%s;sort=%s" % (kinds, ",".join(devs), "on" if (f.get("cfg", {}).get("sort_requires") or {}).get("enabled") else "off")
    if what in ("reparse",):
        return "%s|reparse|%s|%s" % (source, tag, strip_pos(r.get("msg", "")))
    if what in ("meaning", "grouping"):
        return "%s|%s|%s|%s" % (source, what, tag, r.get("meaning_site", json.dumps(r.get("meaning_first_diff", ""))))
    if what == "tokens" and rd.get("slot_ctx"):
        return "%s|tokens|%s" % (source, tag)
    if what == "tokens":
        d = f.get("nf_diff", {})
        if isinstance(d, dict):
            return "%s|tokens|%s|%s=>%s" % (source, tag, abstract_text(str(d.get("a", ""))), abstract_text(str(d.get("b", ""))))
        return "%s|tokens|%s" % (source, tag)
    if what == "census":
        lost = sorted(set(k[0] for k in f.get("census_lost", [])))
        gained = sorted(set(k[0] for k in f.get("census_gained", [])))
        return "%s|census|%s|lost:%s|gained:%s" % (source, tag, ",".join(lost), ",".join(gained))
    if what in ("oscillation", "late_convergence") or what.startswith("second_pass"):
        if source in ("corpus", "types"):
            # whole files / type positions: one entry per (file | position), whatever line moves
            return "%s|not_a_fixpoint|%s" % (source, tag)
        return "%s|%s|%s|%s" % (source, what, tag, layout_change(x.get("line_a", ""), x.get("line_b", "")))
    if pid == "C10":
        cfg = f.get("cfg", {})
        base = ";".join("%s@%s|%s" % (c["kind"], c["prev"], c["next"]) for c in rd.get("slot_ctx", [])) if rd.get("slot_ctx") else (meta.get("sig") or "")
        opt = ("eol=" + cfg.get("line_endings", "Unix")) if what in ("line_ending", "stray_cr", "no_final_newline", "extra_final_newlines") else ("indent=" + cfg.get("indent_type", "Tabs"))
        return "%s|%s|%s;%s" % (source, what, base, opt)
    if pid == "C07":
        if not tag and case.get("meta", {}).get("sig"):
            tag = case["meta"]["sig"]
        return "%s|%s|%s|%s" % (source, what, tag, strip_pos(f.get("msg", "")))
    return "%s|%s|%s" % (source, what, tag)


def example(rec):
    case, events = rec["case"], rec["events"]
    lit = _ev(events, "Lit")
    if lit:
        vs = [(v.get("out"), v.get("cfgs", [{}])[0]) for v in lit.get("variants", [])]
        return "input=%r syntax=%s outputs=%r" % (lit.get("src"), lit.get("syntax"), vs[:4])
    rd, f, r, x = _ev(events, "Render"), _ev(events, "Format"), _ev(events, "Reparse"), _ev(events, "Reformat")
    src = rd.get("src") or case.get("src") or case.get("src_file") or case.get("id")
    out = f.get("out", "")
    s = "input=%r cfg=%s" % (src if len(str(src)) < 200 else str(src)[:200] + "...", json.dumps(f.get("cfg", case.get("cfg", {})), sort_keys=True))
    if case.get("range"):
        s += " range=%s" % json.dumps(case["range"])
    if out:
        s += " output=%r" % (out if len(out) < 200 else out[:200] + "...")
    if x.get("out2"):
        s += " second_pass=%r" % x["out2"][:200]
    if r.get("msg"):
        s += " parse_error=%r" % r["msg"][:120]
    return s
