"""Command-line properties C13..C20: G (TLC scenario generators) -> R (clirun on the hooked binary)
-> V (TLC trace validation with spec/Trace_Cli.tla) with content-keyed sweeps."""
import json, os, re, sys, time, shutil, glob, fcntl
import vlib, sources, clirun, clisources, libcheck
from vlib import log, ToolError

ASSUMPTIONS = [
    "TLC 1.8.0 evaluates the specification faithfully",
    "the hooked binary (cfg stylua_verif) differs from the shipped one only by the add-only instrumentation of src/cli/verif_hooks.rs",
    "scenario trees are materialised outside any git repository with HOME / XDG_CONFIG_HOME redirected; the binary runs as uid 65534 "
    "(setpriv) so that permission classes bite",
    "expected file contents come from the library (vh libfmt) under the configuration the specification resolves",
    "only executions actually replayed count; generator models are exhaustive within their stated constants",
]


def sweep_key(source, tier, seed):
    repo = libcheck.tree_hash(vlib.REPO, ["src/**/*.rs", "Cargo.toml", "Cargo.lock"])
    mine = libcheck.tree_hash(vlib.VERIF, ["harness/src/*.rs", "spec/*.tla", "spec/*.cfg", "tools/clisources.py", "tools/clirun.py", "tools/vlib.py", "tools/sources.py"])
    return libcheck.content_key([repo, mine, "cli", source, tier, str(seed)])


def run_sweep(source, tier, seed, binary):
    key = sweep_key(source, tier, seed)
    d = os.path.join(vlib.BUILD, "sweep", key)
    os.makedirs(os.path.join(vlib.BUILD, "sweep"), exist_ok=True)
    lock = open(os.path.join(vlib.BUILD, "sweep", "lock"), "w")
    fcntl.flock(lock, fcntl.LOCK_EX)
    try:
        meta_p = os.path.join(d, "meta.json")
        if os.path.exists(meta_p):
            m = json.load(open(meta_p))
            m["cached"] = True
            m["dir"] = d
            return m
        for old in glob.glob(os.path.join(vlib.BUILD, "sweep", "*", "meta.json")):
            try:
                om = json.load(open(old))
                if om.get("source") == "cli:" + source and om.get("tier") == tier:
                    shutil.rmtree(os.path.dirname(old), ignore_errors=True)
            except Exception:
                pass
        shutil.rmtree(d, ignore_errors=True)
        os.makedirs(d)
        t0 = time.time()
        log("[G] %s (%s) ..." % (source, tier))
        scenarios, gstats = clisources.SOURCES[source](tier, seed)
        if not scenarios:
            raise ToolError("source %s generated no scenarios (vacuous)" % source)
        vlib.write_ndjson(os.path.join(d, "cases.ndjson"), scenarios)
        log("[G] %d scenarios, TLC states=%s distinct=%s in %.1fs" % (len(scenarios), gstats.get("states"), gstats.get("distinct"), time.time() - t0))
        trace_p = os.path.join(d, "trace.ndjson")
        rwall = clirun.run_scenarios(scenarios, binary, trace_p)
        log("[R] %d runs of the hooked binary in %.1fs" % (len(scenarios), rwall))
        tmod = clisources.TRACE_SPEC.get(source, "Trace_Cli")
        verdicts, vstats = vlib.validate(trace_p, tmod, tmod + ".cfg", "v_cli_" + source, parallel=10, boundary=("Start",))
        log("[V] %d events validated, %d verdict records" % (vstats["events"], len(verdicts)))
        if vstats["tool_errors"]:
            raise ToolError("trace validation: " + "; ".join(vstats["tool_errors"][:3]))
        if vstats["accepted"] != vstats["events"]:
            raise ToolError("trace validation consumed %d of %d events" % (vstats["accepted"], vstats["events"]))
        json.dump(verdicts, open(os.path.join(d, "verdicts.json"), "w"))
        n_hook = sum(1 for line in open(trace_p) if '"ev":"Hook"' in line)
        m = {"source": "cli:" + source, "tier": tier, "seed": seed, "key": key, "ncases": len(scenarios), "gstats": gstats,
             "rwall": round(rwall, 1), "vstats": {k: v for k, v in vstats.items() if k != "tool_errors"},
             "hook_events": n_hook, "wall": round(time.time() - t0, 1)}
        json.dump(m, open(meta_p, "w"))
        m["cached"] = False
        m["dir"] = d
        return m
    finally:
        fcntl.flock(lock, fcntl.LOCK_UN)
        lock.close()


def cli_signature(pid, what, source, sc, events):
    meta = sc.get("meta", {}) or {}
    if meta.get("kind") == "select":
        if what == "processed_twice":
            return "%s|%s|args=%s" % (source, what, meta["sc"]["argset"])
        if meta["sc"].get("globs") and what == "unselected_processed":
            # which kind of file was processed although the specification does not select it: one class per
            # (glob list, kinds) - a selecting glob also lets hidden files and files excluded by .styluaignore through
            fin = next((e for e in events if e.get("ev") == "Final"), {})
            proc = set(o["path"] for o in fin.get("files", []) if o.get("tag") == "cand" and not o.get("same_bytes", True))
            extra = proc - set(meta.get("selected", [])) - set(meta.get("maybe", []))
            ign = set(meta.get("ignored", []))
            kinds = sorted(set("ignored-by-styluaignore" if f in ign else
                               "hidden" if any(c.startswith(".") and c not in (".", "..") for c in f.split("/")) else
                               "other:" + f for f in extra))
            return "%s|%s|globs=%s;flags=%s;extra=%s" % (source, what, meta["sc"].get("globset"),
                                                          "+".join(k for k in ("respect", "allow_hidden") if meta["sc"].get(k)) or "none", ",".join(kinds))
        if what == "unselected_processed" and any(p_["neg"] for p_ in meta["sc"]["ig_root"] + meta["sc"]["ig_src"]):
            # a negated pattern in .styluaignore (`!*.lua`) re-includes hidden files as well: in the walker a
            # re-including match is final and the hidden-file filter is not consulted for that path
            fin = next((e for e in events if e.get("ev") == "Final"), {})
            proc = set(o["path"] for o in fin.get("files", []) if o.get("tag") == "cand" and not o.get("same_bytes", True))
            extra = proc - set(meta.get("selected", [])) - set(meta.get("maybe", []))
            if extra and all(any(c.startswith(".") and c not in (".", "..") for c in f.split("/")) for f in extra):
                return "%s|%s|negated-ignore-pattern;extra=hidden;flags=%s" % (
                    source, what, "+".join(k for k in ("respect", "allow_hidden") if meta["sc"].get(k)) or "none")
        if meta["sc"].get("respect") and any(a["kind"] == "file" for a in meta["sc"]["args"]):
            # one class: explicit paths with --respect-ignores consult only the ignore file of their own directory, else the cwd's
            return "%s|%s|%s;explicit-file-with-respect-ignores" % (source, what, meta["sig"])
        return "%s|%s|%s;ignore=%s" % (source, what, meta["sig"], meta.get("sig_ignore", ""))
    if meta.get("sig"):
        return "%s|%s|%s" % (source, what, meta["sig"])
    classes = "+".join(sorted(set(f.get("cls", "?") for f in meta.get("files", []))))
    parts = [source, what, "mode=%s" % meta.get("mode", "?"), "classes=%s" % classes]
    if what in ("diff_set",):
        parts.append("fmt=%s" % meta.get("fmt"))
    return "|".join(parts)


def cli_example(sc, events):
    fin = [e for e in events if e.get("ev") == "Final"]
    fin = fin[0] if fin else {}
    return "argv=%s tree=%s exit=%s stdout=%r stderr=%r" % (
        " ".join(sc.get("argv", [])), [(t["path"], t.get("class", t.get("kind", "raw"))) for t in sc.get("tree", [])][:12],
        fin.get("exit"), (fin.get("stdout") or "")[:200], (fin.get("stderr") or "")[:200]) + (" sched=%s" % sc["sched"] if sc.get("sched") else "")


def run(pid, tier, seed, args, t0):
    vlib.build_harness()
    binary = vlib.build_cli()
    if args.replay:
        return replay_one(pid, args.replay, binary)
    plan = clisources.PLAN.get(pid, [])
    if not plan:
        log("no sources planned for", pid)
        return 2
    known = vlib.load_known()
    known_sigs = {(k["property"], k["signature"]): k for k in known.get("findings", [])}
    seen_known, violations, tool = {}, [], []
    cov = {"states": 0, "transitions": 0, "traces_validated_against_impl": 0, "evaluations": 0, "distinct_nontrivial": 0,
           "events_validated": 0, "hook_events": 0, "sources": [], "samples": []}
    for src in plan:
        m = run_sweep(src, tier, seed, binary)
        log("[%s] %s: %d scenarios, %d events (%d hook events)%s" % (pid, src, m["ncases"], m["vstats"]["events"], m["hook_events"],
                                                                       " (cached sweep)" if m.get("cached") else ""))
        verdicts = json.load(open(os.path.join(m["dir"], "verdicts.json")))
        mine = []
        for v in verdicts:
            for f in v["fails"]:
                if f["p"] == pid:
                    mine.append((v, f))
                elif f["p"] == "TOOL":
                    tool.append((src, v, f))
        idxs = set(v["idx"] for v, _ in mine)
        evs = libcheck.events_for(os.path.join(m["dir"], "trace.ndjson"), idxs)
        cs = libcheck.cases_for(os.path.join(m["dir"], "cases.ndjson"), idxs)
        for v, f in mine:
            sc = cs.get(v["idx"], {})
            ce = evs.get(v["idx"], [])
            sig = cli_signature(pid, f["w"], src, sc, ce)
            rec = {"property": pid, "what": f["w"], "source": src, "signature": sig, "case": sc, "events": ce}
            if (pid, sig) in known_sigs:
                seen_known.setdefault(sig, rec)
            else:
                violations.append(rec)
        g = m["gstats"]
        cov["states"] += g.get("distinct", 0) + m["vstats"]["states"]
        cov["transitions"] += g.get("states", 0) + m["vstats"]["events"]
        cov["traces_validated_against_impl"] += m["ncases"]
        cov["evaluations"] += m["ncases"]
        cov["distinct_nontrivial"] += m["ncases"]
        cov["events_validated"] += m["vstats"]["events"]
        cov["hook_events"] += m["hook_events"]
        cov["sources"].append({"source": src, "generator": g, "scenarios": m["ncases"], "validation": m["vstats"], "cached_sweep": bool(m.get("cached"))})
        sm = libcheck.cases_for(os.path.join(m["dir"], "cases.ndjson"), [0, m["ncases"] // 2])
        for i, c in sm.items():
            c = dict(c)
            c.pop("meta", None)
            for t in c.get("tree", []):
                t.pop("expect", None)
            c.pop("stdout_expect", None)
            cov["samples"].append({"source": src, "scenario": c})
    if tool:
        for src, v, f in tool[:5]:
            log("TOOL-ERROR: %s in source %s scenario idx %s" % (f["w"], src, v["idx"]))
        return 2
    by_sig = {}
    for r in violations:
        by_sig.setdefault(r["signature"], []).append(r)
    for sig, rec in sorted(seen_known.items()):
        log("KNOWN-FINDING: property=%s %s" % (pid, known_sigs[(pid, sig)].get("what", sig)))
    rc = 0
    if args.triage:
        for sig, rs in sorted(by_sig.items()):
            log("TRIAGE %s x%d  sig=%s" % (pid, len(rs), sig))
            log("   example: " + cli_example(rs[0]["case"], rs[0]["events"])[:700])
        log("triage: %d unlisted signatures, %d known re-observed" % (len(by_sig), len(seen_known)))
        if args.emit_known:
            ents = [{"property": pid, "signature": sig, "count_when_listed": len(rs), "what": "", "example": cli_example(rs[0]["case"], rs[0]["events"])[:600]}
                    for sig, rs in sorted(by_sig.items())]
            json.dump(ents, open(args.emit_known, "w"), indent=1)
    else:
        rdir = os.path.join(vlib.VERIF, "replays", pid)
        shutil.rmtree(rdir, ignore_errors=True)
        if by_sig:
            os.makedirs(rdir, exist_ok=True)
        for n, (sig, rs) in enumerate(sorted(by_sig.items())):
            p = os.path.join(rdir, "%03d.json" % n)
            json.dump({"property": pid, "signature": sig, "what": rs[0]["what"], "source": rs[0]["source"], "count": len(rs),
                       "case": rs[0]["case"], "events": rs[0]["events"], "example": cli_example(rs[0]["case"], rs[0]["events"])}, open(p, "w"), indent=1)
            log("VIOLATION property=%s replay=%s" % (pid, p))
            log("   %s (x%d): %s" % (sig, len(rs), cli_example(rs[0]["case"], rs[0]["events"])[:400]))
            rc = 1
    cov["known_findings_reobserved"] = sorted(seen_known.keys())
    cov["rule"] = ("scenarios = terminal behaviours of the TLC scenario generators (exhaustive within the cfg constants), each materialised as a "
                   "directory tree and run through the hooked binary; every scenario is distinct and non-trivial (at least one file to process)")
    cov["exhaustive"] = False
    vlib.write_evidence(pid, tier, seed, "model_checking", cov, time.time() - t0, len(by_sig), ASSUMPTIONS)
    log("%s: %d scenarios run, %d events validated (%d hook events), %d unlisted violation signatures, %d known findings, %.0fs" % (
        pid, cov["traces_validated_against_impl"], cov["events_validated"], cov["hook_events"], len(by_sig), len(seen_known), time.time() - t0))
    return rc


def replay_one(pid, path, binary):
    rec = json.load(open(path))
    sc = rec["case"]
    d = os.path.join(vlib.BUILD, "replay1")
    shutil.rmtree(d, ignore_errors=True)
    os.makedirs(d)
    trace_p = os.path.join(d, "trace.ndjson")
    clirun.run_scenarios([sc], binary, trace_p, jobs=1)
    tmod = clisources.TRACE_SPEC.get(rec.get("source"), "Trace_Cli")
    verdicts, vstats = vlib.validate(trace_p, tmod, tmod + ".cfg", "v_cli_replay", parallel=1, boundary=("Start",))
    if vstats["tool_errors"]:
        raise ToolError("; ".join(vstats["tool_errors"]))
    evs = vlib.read_ndjson(trace_p)
    rc = 0
    for v in verdicts:
        for f in v["fails"]:
            if f["p"] == pid:
                log("VIOLATION property=%s replay=%s" % (pid, path))
                log("   %s: %s" % (cli_signature(pid, f["w"], rec.get("source", "?"), sc, evs), cli_example(sc, evs)[:400]))
                rc = 1
    if rc == 0:
        log("replay: property %s holds on this scenario" % pid)
    return rc
