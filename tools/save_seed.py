#!/usr/bin/env python3
"""development helper: save a confirmed seeded change. usage: save_seed.py <worktree> <seed-id> <property> "<needs>" "<ran>" """
import sys, os, shutil, json
w, sid, prop, needs, ran = sys.argv[1:6]
root = os.path.dirname(os.path.dirname(os.path.abspath(__file__)))
d = os.path.join(root, "seeded", sid)
os.makedirs(d, exist_ok=True)
shutil.copy(os.path.join(w, "mutation.patch"), os.path.join(d, "patch.diff"))
for f in ("demo.sh", "NOTES.md"):
    if os.path.exists(os.path.join(w, f)):
        shutil.copy(os.path.join(w, f), os.path.join(d, f))
json.dump({"property": prop, "needs_to_manifest": needs, "confirmed": ran, "detected_by": []}, open(os.path.join(d, "meta.json"), "w"), indent=1)
print("saved", d)
