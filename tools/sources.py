"""Case sources (G stage) for every property, and the per-property plan."""
import json, os, glob, random, hashlib
import vlib
from vlib import ToolError

LIB_PROPS = {"C01", "C02", "C03", "C04", "C05", "C06", "C07", "C08", "C09", "C10", "C11", "C12"}
CLI_PROPS = {"C13", "C14", "C15", "C16", "C17", "C18", "C19", "C20"}

# which sources feed which property (order = order of execution)
PLAN = {
    "C01": ["exprparens", "trivia", "calls", "nest", "types", "block", "strings", "literals", "corpus", "sortrequires", "interp"],
    "C02": ["exprparens", "trivia", "calls", "nest", "types", "block", "corpus", "interp"],
    "C03": ["trivia", "layout", "block", "exprparens", "corpus"],
    "C04": ["strings", "literals", "corpus"],
    "C05": ["exprparens"],
    "C08": ["block", "sortrequires", "corpus"],
    "C09": ["blockrange", "sortrequires"],
    "C11": ["calls", "trivia", "strings", "corpus"],
    "C12": ["sortrequires", "corpus"],
    "C10": ["layout", "trivia", "corpus"],
    "C06": ["exprparens", "trivia", "calls", "nest", "types", "block", "sortrequires", "corpus", "interp", "layout"],
    "C07": ["nest", "exprparens", "trivia", "calls", "block", "strings", "literals", "corpus", "invalid", "interp", "types"],
}

LUAU_CTX = {"compound", "ifexp_then", "ifexp_else"}


def tlc_generate(module, cfg, name, workers=8, timeout=1500):
    r = vlib.tlc(module, cfg, name, workers=workers, timeout=timeout, coverage=False)
    if r["rc"] != 0 or "No error has been found" not in r["tail"]:
        raise ToolError("generator %s/%s failed (rc=%s):\n%s" % (module, cfg, r["rc"], r["tail"][-3000:]))
    cases = list(vlib.tlc_lines(r["out"], "CASE"))
    design = list(vlib.tlc_lines(r["out"], "DESIGN"))
    os.remove(r["out"])
    st = {"module": module, "cfg": cfg, "states": r["states"], "distinct": r["distinct"], "wall": round(r["wall"], 1), "cases": len(cases)}
    if design:
        st["design_counterexamples"] = len(design)
        st["design_samples"] = design[:3]
    return cases, st


def src_exprparens(tier, seed):
    raw, st = tlc_generate("MC_ExprParens", "MC_ExprParens_%s.cfg" % tier, "g_exprparens_" + tier)
    raw2, st2 = tlc_generate("MC_ExprParens", "MC_ExprParens_luau_%s.cfg" % tier, "g_exprparens_luau_" + tier)
    raw += raw2
    st = {"module": "MC_ExprParens", "cfg": [st["cfg"], st2["cfg"]], "states": st["states"] + st2["states"],
          "distinct": st["distinct"] + st2["distinct"], "wall": st["wall"] + st2["wall"], "cases": len(raw)}
    raw.sort(key=lambda c: json.dumps(c, sort_keys=True))
    cases = []
    for i, c in enumerate(raw):
        meta = c["meta"]
        luau = meta["ctx"] in LUAU_CTX or '"cast"' in json.dumps(meta["expr"]) or '"ifexp"' in json.dumps(meta["expr"])
        ops = json.dumps(meta["expr"])
        syntax = "Luau" if luau else "Lua54"
        meta["sig"] = "ctx=" + meta["ctx"]
        cases.append({
            "id": "ep%d" % i, "tree": c["tree"], "meta": meta,
            "cfg": {"syntax": syntax}, "sweep": {"column_width": "all"},
            "layout": {"profile": "spaced"},
            "want": ["reformat"],
        })
    return cases, st


CORPUS_DIRS = [
    ("inputs", {"syntax": "Lua51"}),
    ("inputs-full_moon", {"syntax": "Lua51"}),
    ("inputs-luau", {"syntax": "Luau"}),
    ("inputs-luau-full_moon", {"syntax": "Luau"}),
    ("inputs-lua52", {"syntax": "Lua52"}),
    ("inputs-lua53", {"syntax": "Lua53"}),
    ("inputs-lua54", {"syntax": "Lua54"}),
    ("inputs-ignore", {"syntax": "Lua51"}),
    ("inputs-collapse-single-statement", {"syntax": "Lua51", "collapse_simple_statement": "Always"}),
    ("inputs-sort-requires", {"syntax": "Lua51"}),
]


def src_corpus(tier, seed):
    """Traces recorded from the inputs of the repository's own snapshot tests."""
    cases = []
    widths = [120, 80, 40] if tier == "quick" else [120, 100, 80, 60, 40, 30, 20]
    for d, cfg in CORPUS_DIRS:
        files = sorted(glob.glob(os.path.join(vlib.REPO, "tests", d, "*.lua")))
        for f in files:
            sweep = {"column_width": widths, "indent_type": ["Tabs", "Spaces"], "line_endings": ["Unix", "Windows"]}
            if tier == "thorough":
                sweep["indent_width"] = [2, 3, 4]
            cases.append({
                "id": "corpus:%s/%s" % (d, os.path.basename(f)), "src_file": f, "cfg": dict(cfg),
                "sweep": dict(sweep, sort_requires=[True]) if d == "inputs-sort-requires" else sweep,
                "want": ["reformat", "lines", "calls", "strings"] + (["stmts"] if d == "inputs-ignore" else []) + (["sort"] if d == "inputs-sort-requires" else []),
                "meta": {"src": "corpus", "dir": d},
            })
    return cases, {"module": "(corpus: tests/inputs*)", "cases": len(cases), "states": 0, "distinct": 0}


def src_trivia(tier, seed):
    raw, st = tlc_generate("MC_Trivia", "MC_Trivia_%s.cfg" % tier, "g_trivia_" + tier)
    raw.sort(key=lambda c: json.dumps(c, sort_keys=True))
    cases = []
    for i, c in enumerate(raw):
        g = c["meta"]["group"]
        sweep = {"column_width": "all"}
        if g in ("block", "func"):
            sweep["collapse_simple_statement"] = ["Never", "FunctionOnly", "ConditionalOnly", "Always"]
        if g == "call":
            sweep["call_parentheses"] = ["Always", "NoSingleString", "NoSingleTable", "None", "Input"]
        c["id"] = "tv%d" % i
        c["sweep"] = sweep
        c["layout"]["profile"] = "spaced"
        c["want"] = ["reformat", "lines"] + (["calls", "strings"] if g == "call" else [])
        cases.append(c)
    return cases, st


def src_layout(tier, seed):
    """C10: trivia templates rendered with CRLF / mixed line endings and space / mixed indentation,
    formatted under every (line_endings, indent_type, indent_width) and two widths."""
    raw, st = tlc_generate("MC_Trivia", "MC_Trivia_layout_%s.cfg" % tier, "g_layout_" + tier)
    raw.sort(key=lambda c: json.dumps(c, sort_keys=True))
    cases = []
    lays = [("crlf", "space2"), ("mixed", "mixed")] if tier == "quick" else [("crlf", "space2"), ("mixed", "mixed"), ("lf", "space3"), ("crlf", "tab")]
    lays = [l + (0,) for l in lays] + [("lf", "tab", 2)]
    for i, c in enumerate(raw):
        for (eol, ind, blank) in lays:
            d = json.loads(json.dumps(c))
            d["id"] = "ly%d:%s:%s:%d" % (i, eol, ind, blank)
            d["layout"].update({"profile": "spaced", "eol": eol, "indent": ind, "blank": blank, "lead_blank": blank})
            d["meta"]["src"] = "Layout"
            d["sweep"] = {"line_endings": ["Unix", "Windows"], "indent_type": ["Tabs", "Spaces"],
                          "indent_width": [1, 2, 3, 4, 8] if tier == "quick" else [1, 2, 3, 4, 5, 6, 7, 8, 16],
                          "column_width": [120, 20] if tier == "quick" else [120, 40, 20, 1]}
            d["want"] = ["lines", "reformat"]
            cases.append(d)
    return cases, st


def _block_cases(cfgname, name, prefix, extra_sweep=None):
    raw, st = tlc_generate("MC_Block", cfgname, name)
    raw.sort(key=lambda c: json.dumps(c, sort_keys=True))
    cases = []
    for i, c in enumerate(raw):
        c["id"] = "%s%d" % (prefix, i)
        c["sweep"] = dict(extra_sweep or {"column_width": [120, 12]})
        if any(k in ("if", "func", "ifret") for k in c["meta"].get("prog", [])) and "range_markers" not in c:
            c["sweep"]["collapse_simple_statement"] = ["Never", "Always"]
        c["want"] = ["stmts", "lines", "reformat"]
        cases.append(c)
    return cases, st


def src_block(tier, seed):
    return _block_cases("MC_Block_%s.cfg" % tier, "g_block_" + tier, "bk")


def src_blockrange(tier, seed):
    return _block_cases("MC_Block_range_%s.cfg" % tier, "g_blockrange_" + tier, "br")


def src_sortrequires(tier, seed):
    raw, st = tlc_generate("MC_SortRequires", "MC_SortRequires_%s.cfg" % tier, "g_sortreq_" + tier)
    raw.sort(key=lambda c: json.dumps(c, sort_keys=True))
    cases = []
    for i, c in enumerate(raw):
        c["id"] = "sr%d" % i
        c["sweep"] = {"sort_requires": [True, False]}
        c["want"] = ["sort", "reformat", "stmts"]
        cases.append(c)
    return cases, st


def src_calls(tier, seed):
    raw, st = tlc_generate("MC_Calls", "MC_Calls_%s.cfg" % tier, "g_calls_" + tier)
    raw.sort(key=lambda c: json.dumps(c, sort_keys=True))
    cases = []
    for i, c in enumerate(raw):
        c["id"] = "cl%d" % i
        c["meta"]["sig"] = "form=%s,suffix=%s,kinds=%s" % (c["meta"]["form"], c["meta"]["suffix"], "+".join(sorted(set(c["meta"]["args"]))))
        c["sweep"] = {"column_width": "all", "call_parentheses": ["Always", "NoSingleString", "NoSingleTable", "None", "Input"],
                      "space_after_function_names": ["Never", "Definitions", "Calls", "Always"]}
        c["want"] = ["reformat", "calls", "strings"]
        cases.append(c)
    return cases, st


def src_nest(tier, seed):
    raw, st = tlc_generate("MC_Nest", "MC_Nest_%s.cfg" % tier, "g_nest_" + tier)
    raw.sort(key=lambda c: (c["meta"]["kind"], c["meta"]["depth"]))
    cases = []
    for i, c in enumerate(raw):
        c["id"] = "ns:%s:%d" % (c["meta"]["kind"], c["meta"]["depth"])
        c["sweep"] = {"column_width": [1, 20, 40, 80, 120, "max"]}
        c["want"] = ["reformat"]
        cases.append(c)
    return cases, st


def src_invalid(tier, seed):
    """C07: text that does not parse (a template with one unbalanced token), with and without degenerate ranges."""
    raw, st = tlc_generate("MC_Invalid", "MC_Invalid_%s.cfg" % tier, "g_invalid_" + tier)
    raw.sort(key=lambda c: json.dumps(c, sort_keys=True))
    cases = []
    for i, c in enumerate(raw):
        c["id"] = "iv%d" % i
        c["sweep"] = {"column_width": [120, 20]}
        c["layout"]["profile"] = "spaced"
        c["want"] = []
        cases.append(c)
    return cases, st


def src_interp(tier, seed):
    """Luau interpolated strings: piece sequences x positions (raw source, judged by re-parse / meaning / second pass)."""
    raw, st = tlc_generate("MC_Interp", "MC_Interp_%s.cfg" % tier, "g_interp_" + tier)
    raw.sort(key=lambda c: c["src"])
    cases = []
    for i, c in enumerate(raw):
        c["id"] = "ip%d" % i
        c["meta"]["sig"] = "interp:%s:%s" % (c["meta"]["pos"], "+".join(sorted(set(c["meta"]["pieces"]))))
        c["sweep"] = {"column_width": [120, 16], "call_parentheses": ["Always", "None"]}
        c["want"] = ["reformat", "src"]
        cases.append(c)
    return cases, st


def src_types(tier, seed):
    raw, st = tlc_generate("MC_Types", "MC_Types_%s.cfg" % tier, "g_types_" + tier)
    raw.sort(key=lambda c: c["src"])
    cases = []
    for i, c in enumerate(raw):
        c["id"] = "ty%d" % i
        c["sweep"] = {"column_width": [120, 24]}
        c["want"] = ["reformat", "src"]
        cases.append(c)
    return cases, st


def src_strings(tier, seed):
    cfgs = ["MC_Strings_quick.cfg", "MC_Strings_quick2.cfg"] if tier == "quick" else ["MC_Strings_thorough.cfg", "MC_Strings_thorough2.cfg"]
    raw, stats = [], {"module": "MC_Strings", "cfg": cfgs, "states": 0, "distinct": 0, "wall": 0}
    seen = set()
    for c in cfgs:
        r, st = tlc_generate("MC_Strings", c, "g_strings")
        for x in r:
            k = (x["q"], tuple(x["body"]))
            if k not in seen:
                seen.add(k)
                raw.append(x)
        stats["states"] += st["states"]; stats["distinct"] += st["distinct"]; stats["wall"] += st["wall"]
    raw.sort(key=lambda c: (len(c["body"]), c["q"], c["body"]))
    cases = []
    for i, c in enumerate(raw):
        for sx in ("Lua51", "Lua54", "Luau"):
            d = dict(c)
            d["id"] = "str%d:%s" % (i, sx)
            d["syntax"] = sx
            d["positions"] = ["expr", "callarg", "tablekey", "index", "method", "index_par", "tablekey_par", "callarg_par", "index_cat", "tablekey_cat"] if len(c["body"]) <= 2 and sx == "Lua54" else ["expr"]
            cases.append(d)
    stats["cases"] = len(cases)
    return cases, stats


def src_literals(tier, seed):
    raw, st = tlc_generate("MC_Literals", "MC_Literals_%s.cfg" % tier, "g_literals")
    raw.sort(key=lambda c: json.dumps(c, sort_keys=True))
    cases = []
    for i, c in enumerate(raw):
        c["id"] = "lit%d" % i
        if c["kind"] == "longlit":
            c["positions"] = ["expr", "callarg", "tablekey", "index", "method", "index_par", "tablekey_par", "callarg_par", "index_cat", "tablekey_cat"] if len(c["body"]) <= 2 else ["expr", "index"]
        else:
            c["positions"] = ["expr"]
        cases.append(c)
    return cases, st


SOURCES = {
    "types": src_types,
    "invalid": src_invalid,
    "interp": src_interp,
    "nest": src_nest,
    "calls": src_calls,
    "sortrequires": src_sortrequires,
    "block": src_block,
    "blockrange": src_blockrange,
    "layout": src_layout,
    "trivia": src_trivia,
    "strings": src_strings,
    "literals": src_literals,
    "exprparens": src_exprparens,
    "corpus": src_corpus,
}


REPLAY_TIMEOUT = {"nest": 12}
TRACE_SPEC = {"strings": "Trace_Strings", "literals": "Trace_Strings"}


def plan(pid):
    return PLAN.get(pid, [])
