"""Library properties C01..C12: the G -> R -> V pipeline with shared, content-keyed sweeps."""
import json, os, re, sys, time, hashlib, fcntl, shutil, glob, subprocess
import vlib, sources, signatures
from vlib import log, ToolError

ASSUMPTIONS = [
    "TLC 1.8.0 evaluates the specification faithfully",
    "full_moon 1.2.0 is the definition of the syntax (domain of the property and re-parse oracle)",
    "harness projection (project.rs), lexer (lex.rs), decoder (decode.rs) and renderer (render.rs) are trusted; "
    "renderer is cross-checked by round trip on every generated case (spec_match), the Rust mirror of Meaning "
    "against TLC's Meaning on every small case (MirrorAgrees)",
    "only executions actually replayed count; the bounded generator models are exhaustive within their stated constants",
]


def content_key(parts):
    h = hashlib.sha256()
    for p in parts:
        h.update(p.encode() if isinstance(p, str) else p)
    return h.hexdigest()[:24]


def tree_hash(root, patterns):
    h = hashlib.sha256()
    files = []
    for pat in patterns:
        files += glob.glob(os.path.join(root, pat), recursive=True)
    for f in sorted(set(files)):
        if os.path.isfile(f):
            h.update(f.encode())
            with open(f, "rb") as fh:
                h.update(fh.read())
    return h.hexdigest()


def sweep_key(source, tier, seed):
    repo = tree_hash(vlib.REPO, ["src/**/*.rs", "Cargo.toml", "Cargo.lock", "tests/inputs*/*.lua"])
    mine = tree_hash(vlib.VERIF, ["harness/src/*.rs", "harness/Cargo.toml", "spec/*.tla", "spec/*.cfg", "tools/sources.py", "tools/vlib.py"])
    return content_key([repo, mine, source, tier, str(seed)])


def run_sweep(source, tier, seed):
    """G -> R -> V for one source; cached under build/sweep/<key> (key covers /repo's sources,
    the spec, the harness, tier and seed: a change anywhere gives a new key)."""
    key = sweep_key(source, tier, seed)
    d = os.path.join(vlib.BUILD, "sweep", key)
    os.makedirs(os.path.join(vlib.BUILD, "sweep"), exist_ok=True)
    lock = open(os.path.join(vlib.BUILD, "sweep", "lock"), "w")
    fcntl.flock(lock, fcntl.LOCK_EX)
    try:
        meta_p = os.path.join(d, "meta.json")
        if os.path.exists(meta_p):
            m = json.load(open(meta_p))
            m["cached"] = True
            m["dir"] = d
            return m
        # drop old sweeps of the same (source, tier) to bound disk use
        for old in glob.glob(os.path.join(vlib.BUILD, "sweep", "*", "meta.json")):
            try:
                om = json.load(open(old))
                if om.get("source") == source and om.get("tier") == tier:
                    shutil.rmtree(os.path.dirname(old), ignore_errors=True)
            except Exception:
                pass
        shutil.rmtree(d, ignore_errors=True)
        os.makedirs(d)
        t0 = time.time()
        log("[G] %s (%s) ..." % (source, tier))
        cases, gstats = sources.SOURCES[source](tier, seed)
        if not cases:
            raise ToolError("source %s generated no cases (vacuous)" % source)
        cases_p = os.path.join(d, "cases.ndjson")
        vlib.write_ndjson(cases_p, cases)
        log("[G] %d cases, TLC states=%s distinct=%s in %.1fs" % (len(cases), gstats.get("states"), gstats.get("distinct"), time.time() - t0))
        trace_p = os.path.join(d, "trace.ndjson")
        t1 = time.time()
        vlib.replay_lib(cases_p, trace_p, timeout_s=sources.REPLAY_TIMEOUT.get(source, 60))
        rwall = time.time() - t1
        log("[R] replayed in %.1fs" % rwall)
        t2 = time.time()
        tmod = sources.TRACE_SPEC.get(source, "Trace_Lib")
        verdicts, vstats = vlib.validate(trace_p, tmod, tmod + ".cfg", "v_" + source, parallel=10,
                                         boundary=("Lit",) if tmod == "Trace_Strings" else ("Render",))
        log("[V] %d events validated in %.1fs, %d verdict records" % (vstats["events"], time.time() - t2, len(verdicts)))
        if vstats["tool_errors"]:
            shutil.rmtree(d, ignore_errors=True)
            raise ToolError("trace validation: " + "; ".join(vstats["tool_errors"][:3]))
        if vstats["accepted"] != vstats["events"]:
            shutil.rmtree(d, ignore_errors=True)
            raise ToolError("trace validation consumed %d of %d events" % (vstats["accepted"], vstats["events"]))
        json.dump(verdicts, open(os.path.join(d, "verdicts.json"), "w"))
        # cheap trace statistics
        stats = trace_stats(trace_p)
        m = {"source": source, "tier": tier, "seed": seed, "key": key, "ncases": len(cases), "gstats": gstats,
             "rwall": round(rwall, 1), "vstats": {k: v for k, v in vstats.items() if k != "tool_errors"},
             "tstats": stats, "wall": round(time.time() - t0, 1)}
        json.dump(m, open(meta_p, "w"))
        m["cached"] = False
        m["dir"] = d
        return m
    finally:
        fcntl.flock(lock, fcntl.LOCK_UN)
        lock.close()


def trace_stats(trace_p):
    n = {"Render": 0, "Format": 0, "Reparse": 0, "Reformat": 0, "nonidentity_cases": 0, "format_calls": 0,
         "dropped_not_in_domain": 0}
    nonid = set()
    with open(trace_p, errors="replace") as f:
        for line in f:
            m = re.search(r'"ev":"(\w+)"', line)
            if not m:
                continue
            ev = m.group(1)
            n[ev] = n.get(ev, 0) + 1
            if ev == "Format":
                mm = re.search(r'"nlabels":(\d+)', line)
                n["format_calls"] += int(mm.group(1)) if mm else 1
                if '"identity":false' in line:
                    mi = re.search(r'"idx":(\d+)', line)
                    if mi:
                        nonid.add(mi.group(1))
            elif ev == "Render" and '"in_parse":"err"' in line:
                n["dropped_not_in_domain"] += 1
            elif ev == "Lit":
                if '"lexer_ok":false' in line:
                    n["dropped_not_in_domain"] += 1
                else:
                    n["format_calls"] += line.count('"style":')
                    if line.count('"outcome":') > 1 or '"q_out":"SQ"' in line or '"text_out"' in line:
                        mi = re.search(r'"idx":(\d+)', line)
                        if mi:
                            nonid.add(mi.group(1))
    n["nonidentity_cases"] = len(nonid)
    return n


def events_for(trace_p, idxs):
    """Collect the events of the given case indices from a trace (streaming)."""
    want = set(int(i) for i in idxs)
    out = {}
    if not want:
        return out
    with open(trace_p, errors="replace") as f:
        for line in f:
            m = re.search(r'"idx":(\d+)', line[-40:]) or re.search(r'"idx":(\d+)', line)
            if m and int(m.group(1)) in want:
                e = json.loads(line)
                out.setdefault(int(e["idx"]), []).append(e)
    return out


def cases_for(cases_p, idxs):
    want = set(int(i) for i in idxs)
    out = {}
    with open(cases_p, errors="replace") as f:
        for i, line in enumerate(f):
            if i in want:
                out[i] = json.loads(line)
    return out


def run(pid, tier, seed, args, t0):
    bt = vlib.build_harness()
    log("harness built in %.1fs" % bt)
    if args.replay:
        return replay_one(pid, args.replay)
    plan = sources.plan(pid)
    if not plan:
        log("no sources planned for", pid)
        return 2
    known = vlib.load_known()
    known_sigs = {(k["property"], k["signature"]): k for k in known.get("findings", [])}
    # (property, source, verdict family, comment slot) of every listed single-comment finding: a failure of a case
    # with two comments is attributed to one of its comments when that comment alone is listed for the same family
    known_slots = {}
    for k in known.get("findings", []):
        sp = signatures.slot_prefix(k["signature"])
        if sp is not None:
            known_slots.setdefault((k["property"],) + sp, k["signature"])
    seen_known = {}
    violations = []
    drift = 0
    extra = {}
    tool = []
    cov = {"states": 0, "transitions": 0, "traces_validated_against_impl": 0, "evaluations": 0, "distinct_nontrivial": 0,
           "events_validated": 0, "sources": [], "samples": []}
    for src in plan:
        m = run_sweep(src, tier, seed)
        log("[%s] %s: %d cases, %d events, %d format calls%s" % (pid, src, m["ncases"], m["vstats"]["events"], m["tstats"]["format_calls"],
                                                                  " (cached sweep)" if m.get("cached") else ""))
        verdicts = json.load(open(os.path.join(m["dir"], "verdicts.json")))
        mine = []
        for v in verdicts:
            for f in v["fails"]:
                if f["p"] == pid:
                    mine.append((v, f))
                elif f["p"] == "TOOL":
                    tool.append((src, v, f))
                elif f["p"] == "DRIFT":
                    drift += 1
                elif f["p"] == "XL" and (pid == "C10" or f["w"] == "nondeterministic"):
                    extra[f["w"]] = extra.get(f["w"], 0) + 1
        idxs = set(v["idx"] for v, _ in mine)
        evs = events_for(os.path.join(m["dir"], "trace.ndjson"), idxs)
        cs = cases_for(os.path.join(m["dir"], "cases.ndjson"), idxs)
        # configurations of all failing variants per (case, verdict): the option part of the signature
        fail_cfgs = {}
        for v, f in mine:
            for e in evs.get(v["idx"], []):
                if e.get("variant") == v.get("variant") and e.get("ev") == "Format":
                    fail_cfgs.setdefault((v["idx"], f["w"]), []).append(e.get("cfg", {}))
                    break
        for v, f in mine:
            case = cs.get(v["idx"], {})
            ce = [e for e in evs.get(v["idx"], []) if e.get("variant", v.get("variant")) == v.get("variant") or e.get("ev") in ("Render", "Lit")]
            if v.get("pos"):
                ce = [e for e in ce if e.get("ev") != "Lit" or e.get("pos") == v["pos"]]
            sig = signatures.signature(pid, f["w"], src, case, ce, f.get("i", 0),
                                       signatures.options_tag(fail_cfgs.get((v["idx"], f["w"]), [{}])))
            rec = {"property": pid, "what": f["w"], "source": src, "signature": sig, "case": case, "events": ce}
            if (pid, sig) in known_sigs:
                seen_known.setdefault(sig, rec)
            else:
                otag = signatures.options_tag(fail_cfgs.get((v["idx"], f["w"]), [{}]))
                alts = signatures.single_comment_variants(pid, f["w"], src, case, ce, f.get("i", 0), otag) + \
                       (signatures.single_comment_variants(pid, f["w"], src, case, ce, f.get("i", 0), "") if otag else [])
                hit = next((a for a in alts if (pid, a) in known_sigs), None)
                if hit is None and alts:
                    for a in alts:
                        sp = signatures.slot_prefix(a)
                        if sp is not None and (pid,) + sp in known_slots:
                            hit = known_slots[(pid,) + sp]
                            break
                if hit is not None:
                    seen_known.setdefault(hit, rec)
                else:
                    violations.append(rec)
        g = m["gstats"]
        cov["states"] += g.get("distinct", 0) + m["vstats"]["states"]
        cov["transitions"] += g.get("states", 0) + m["vstats"]["events"]
        cov["traces_validated_against_impl"] += m["ncases"]
        cov["evaluations"] += m["tstats"]["format_calls"]
        cov["distinct_nontrivial"] += m["tstats"]["nonidentity_cases"]
        cov["events_validated"] += m["vstats"]["events"]
        cov["sources"].append({"source": src, "generator": g, "cases": m["ncases"], "trace": m["tstats"], "validation": m["vstats"],
                               "cached_sweep": bool(m.get("cached"))})
        # samples: first two cases of the source
        sm = cases_for(os.path.join(m["dir"], "cases.ndjson"), [0, m["ncases"] // 2])
        for i, c in sm.items():
            c = dict(c)
            c.pop("meta", None)
            cov["samples"].append({"source": src, "case": c})
    if tool:
        for src, v, f in tool[:5]:
            log("TOOL-ERROR: %s in source %s case idx %s" % (f["w"], src, v["idx"]))
        return 2
    if drift:
        log("NOTE: drift - %d observed outputs are outside the Impl model's prediction (not a violation)" % drift)
    # report
    by_sig = {}
    for r in violations:
        by_sig.setdefault(r["signature"], []).append(r)
    for sig, rec in sorted(seen_known.items()):
        log("KNOWN-FINDING: property=%s %s" % (pid, known_sigs[(pid, sig)].get("what", sig)))
    rc = 0
    if args.triage:
        for sig, rs in sorted(by_sig.items()):
            log("TRIAGE %s x%d  sig=%s" % (pid, len(rs), sig))
            log("   example: " + signatures.example(rs[0]))
        log("triage: %d unlisted signatures, %d known re-observed" % (len(by_sig), len(seen_known)))
        if args.emit_known:
            ents = [{"property": pid, "signature": sig, "count_when_listed": len(rs), "what": "", "example": signatures.example(rs[0])[:600]}
                    for sig, rs in sorted(by_sig.items())]
            json.dump(ents, open(args.emit_known, "w"), indent=1)
    else:
        rdir = os.path.join(vlib.VERIF, "replays", pid)
        shutil.rmtree(rdir, ignore_errors=True)
        if by_sig:
            os.makedirs(rdir, exist_ok=True)
        for n, (sig, rs) in enumerate(sorted(by_sig.items())):
            p = os.path.join(rdir, "%03d.json" % n)
            json.dump({"property": pid, "signature": sig, "what": rs[0]["what"], "source": rs[0]["source"], "count": len(rs),
                       "case": rs[0]["case"], "events": rs[0]["events"], "example": signatures.example(rs[0])}, open(p, "w"), indent=1)
            log("VIOLATION property=%s replay=%s" % (pid, p))
            log("   %s (x%d): %s" % (sig, len(rs), signatures.example(rs[0])[:300]))
            rc = 1
    cov["model_drift"] = drift
    if pid == "C10":
        cov["extra_layout_invariants_failed"] = extra
        if extra:
            log("NOTE: extra invariants (outside the listed properties: layout extras, format_code being a function of its arguments) "
                "failed on some outputs: %s" % json.dumps(extra, sort_keys=True))
    cov["known_findings_reobserved"] = sorted(seen_known.keys())
    cov["rule"] = ("cases = terminal behaviours of the TLC generator models (exhaustive within the cfg constants) plus the repository's "
                   "test inputs; each is replayed under every configuration of its sweep; distinct_nontrivial = distinct cases whose "
                   "output differs from the input for at least one configuration")
    cov["exhaustive"] = False
    vlib.write_evidence(pid, tier, seed, "model_checking", cov, time.time() - t0, len(by_sig), ASSUMPTIONS)
    log("%s: %d cases, %d format calls, %d events validated, %d unlisted violation signatures, %d known findings, %.0fs" % (
        pid, cov["traces_validated_against_impl"], cov["evaluations"], cov["events_validated"], len(by_sig), len(seen_known), time.time() - t0))
    return rc


def replay_one(pid, path):
    rec = json.load(open(path))
    case = rec["case"]
    d = os.path.join(vlib.BUILD, "replay1")
    shutil.rmtree(d, ignore_errors=True)
    os.makedirs(d)
    vlib.write_ndjson(os.path.join(d, "cases.ndjson"), [case])
    vlib.replay_lib(os.path.join(d, "cases.ndjson"), os.path.join(d, "trace.ndjson"), jobs=1)
    verdicts, vstats = vlib.validate(os.path.join(d, "trace.ndjson"), "Trace_Lib", "Trace_Lib.cfg", "v_replay", parallel=1)
    if vstats["tool_errors"]:
        raise ToolError("; ".join(vstats["tool_errors"]))
    evs = vlib.read_ndjson(os.path.join(d, "trace.ndjson"))
    rc = 0
    for v in verdicts:
        for f in v["fails"]:
            if f["p"] == pid:
                ce = [e for e in evs if e.get("variant", v.get("variant")) == v.get("variant") or e.get("ev") == "Render"]
                sig = signatures.signature(pid, f["w"], rec.get("source", "?"), case, ce)
                log("VIOLATION property=%s replay=%s" % (pid, path))
                log("   %s: %s" % (sig, signatures.example({"case": case, "events": ce, "what": f["w"]})[:400]))
                rc = 1
    if rc == 0:
        log("replay: property %s holds on this case" % pid)
    return rc
