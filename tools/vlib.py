"""Shared machinery of /verif/check: TLC runner, harness builder, G->R->V pipeline,
known findings, evidence writer."""
import json, os, re, subprocess, sys, time, hashlib, shutil, glob
from concurrent.futures import ThreadPoolExecutor

VERIF = os.path.dirname(os.path.dirname(os.path.abspath(__file__)))
REPO = os.environ.get("VERIF_REPO", "/repo")
BUILD = os.path.join(VERIF, "build")
SPEC = os.path.join(VERIF, "spec")
TMP = os.path.join(BUILD, "tmp", str(os.getpid()))     # per process: checks may run concurrently
JAR = "/opt/veriftools/tla/tla2tools.jar:/opt/veriftools/tla/CommunityModules-deps.jar"
# Development only: with VERIF_REPO=<scratch worktree> every build product lives under build/alt/<hash of the path>,
# so that a check against a scratch copy never disturbs (or is disturbed by) a check against /repo running at the same time.
ALT = "" if REPO == "/repo" else os.path.join(BUILD, "alt", hashlib.sha256(REPO.encode()).hexdigest()[:12])
TARGET_HARNESS = os.path.join(ALT or BUILD, "target-harness")
TARGET_CLI = os.path.join(ALT or BUILD, "target-cli")
HARNESS_DIR = os.path.join(ALT, "harness") if ALT else os.path.join(VERIF, "harness")
VH = os.path.join(TARGET_HARNESS, "release", "vh")


class ToolError(Exception):
    pass


def log(*a):
    print(*a, flush=True)


def ensure_dirs():
    for d in (BUILD, TMP, os.path.join(BUILD, "tlc"), os.path.join(VERIF, "evidence"), os.path.join(VERIF, "replays")):
        os.makedirs(d, exist_ok=True)


# ----------------------------------------------------------------------------- builds
def build_harness():
    """(Re)build the replay harness against /repo's current working tree (path dependency;
    cargo decides staleness)."""
    ensure_dirs()
    env = dict(os.environ, CARGO_NET_OFFLINE="true")
    t0 = time.time()
    if ALT:
        # a private copy of the harness sources whose path dependency points at the scratch worktree
        src = os.path.join(VERIF, "harness")
        shutil.rmtree(HARNESS_DIR, ignore_errors=True)
        shutil.copytree(src, HARNESS_DIR, ignore=shutil.ignore_patterns("target"))
        mp = os.path.join(HARNESS_DIR, "Cargo.toml")
        with open(mp) as f:
            m = f.read()
        with open(mp, "w") as f:
            f.write(m.replace('path = "/repo"', 'path = "%s"' % REPO))
        env["CARGO_TARGET_DIR"] = TARGET_HARNESS
    _fresh_or_clean("harness", HARNESS_DIR, env, ["--release"])
    r = subprocess.run(["cargo", "build", "--release", "--offline", "--quiet"], cwd=HARNESS_DIR,
                       env=env, capture_output=True, text=True)
    if r.returncode != 0:
        sys.stderr.write(r.stdout[-4000:] + r.stderr[-8000:])
        raise ToolError("harness build failed (does /repo still compile?)")
    return time.time() - t0


def _repo_stamp():
    h = hashlib.sha256()
    for root in (os.path.join(REPO, "src"),):
        for dp, dn, fn in sorted(os.walk(root)):
            dn.sort()
            for n in sorted(fn):
                p = os.path.join(dp, n)
                h.update(p.encode())
                with open(p, "rb") as f:
                    h.update(f.read())
    for n in ("Cargo.toml", "Cargo.lock"):
        with open(os.path.join(REPO, n), "rb") as f:
            h.update(f.read())
    h.update(REPO.encode())
    return h.hexdigest()


def _fresh_or_clean(name, cwd, env, extra):
    """Do not trust mtimes alone: when the content of the repository differs from what the last build of this
    target saw, drop the stylua artefacts so that they are rebuilt from the current working tree."""
    stamp_p = os.path.join(ALT or BUILD, name + ".stamp")
    cur = _repo_stamp()
    old = open(stamp_p).read() if os.path.exists(stamp_p) else ""
    if old != cur:
        subprocess.run(["cargo", "clean", "--offline", "-p", "stylua"] + extra, cwd=cwd, env=env, capture_output=True, text=True)
        if name == "harness":
            # the harness binary itself is relinked too (cargo did not always notice a switched path dependency)
            subprocess.run(["cargo", "clean", "--offline", "-p", "vh"] + extra, cwd=cwd, env=env, capture_output=True, text=True)
        with open(stamp_p, "w") as f:
            f.write(cur)


def build_cli():
    """Build /repo's stylua binary with the verification hooks enabled into build/target-cli."""
    ensure_dirs()
    env = dict(os.environ, CARGO_NET_OFFLINE="true",
               RUSTFLAGS="--cfg stylua_verif --check-cfg cfg(stylua_verif)",
               CARGO_TARGET_DIR=TARGET_CLI)
    _fresh_or_clean("cli", REPO, env, [])
    r = subprocess.run(["cargo", "build", "--offline", "--quiet", "--bin", "stylua",
                        "--features", "luau,lua52,lua53,lua54,luajit"], cwd=REPO, env=env, capture_output=True, text=True)
    if r.returncode != 0:
        sys.stderr.write(r.stdout[-4000:] + r.stderr[-8000:])
        raise ToolError("cli build failed")
    return os.path.join(TARGET_CLI, "debug", "stylua")


# ----------------------------------------------------------------------------- TLC
def tlc(module, cfg, name, workers=8, env=None, timeout=1200, extra=None, heap="8g", coverage=False, simulate=None, jvm=None):
    """Run TLC on spec/<module>.tla with spec/<cfg>. Returns dict(out=path, states=, distinct=, ok=, text=)."""
    ensure_dirs()
    name = "%s.p%d" % (name, os.getpid())
    meta = os.path.join(BUILD, "tlc", name)
    shutil.rmtree(meta, ignore_errors=True)
    os.makedirs(meta, exist_ok=True)
    outp = os.path.join(BUILD, "tlc", name + ".out")
    cmd = ["java", "-XX:+UseParallelGC", "-Xmx" + heap, "-Xss1g", "-Djava.io.tmpdir=" + TMP,
           "-Dtlc2.tool.queue.IStateQueue=StateDeque" if workers == 1 else "-Dverif=1",
           ] + (jvm or []) + [
           "-cp", JAR, "tlc2.TLC", "-workers", str(workers), "-metadir", meta, "-cleanup", "-noGenerateSpecTE",
           "-config", os.path.join(SPEC, cfg)]
    if coverage:
        cmd += ["-coverage", "1"]
    if simulate:
        cmd += ["-simulate", simulate]
    if extra:
        cmd += extra
    cmd.append(os.path.join(SPEC, module + ".tla"))
    e = dict(os.environ)
    e.pop("JAVA_TOOL_OPTIONS", None)
    if env:
        e.update(env)
    t0 = time.time()
    with open(outp, "w") as f:
        try:
            r = subprocess.run(cmd, stdout=f, stderr=subprocess.STDOUT, env=e, cwd=SPEC, timeout=timeout)
            rc = r.returncode
        except subprocess.TimeoutExpired:
            rc = 124
    wall = time.time() - t0
    shutil.rmtree(meta, ignore_errors=True)
    res = {"out": outp, "rc": rc, "wall": wall, "states": 0, "distinct": 0}
    tail = subprocess.run(["tail", "-n", "40", outp], capture_output=True, text=True).stdout
    m = re.search(r"(\d+) states generated, (\d+) distinct states found", tail)
    if m:
        res["states"], res["distinct"] = int(m.group(1)), int(m.group(2))
    res["tail"] = tail
    return res


def tlc_lines(outp, tag):
    """Yield the JSON payloads of lines <<"TAG", "json">> printed with PrintT."""
    pre = '<<"%s", "' % tag
    with open(outp, errors="replace") as f:
        for line in f:
            if line.startswith(pre):
                line = line.rstrip("\n")
                if not line.endswith('">>'):
                    continue
                inner = line[len(pre):-3]
                try:
                    yield json.loads(json.loads('"' + inner + '"'))
                except Exception:
                    # TLA+ escapes are a subset of JSON's, but be defensive
                    try:
                        yield json.loads(inner.replace('\\"', '"').replace("\\\\", "\\"))
                    except Exception as ex:
                        raise ToolError("cannot parse TLC line: %s... (%s)" % (line[:200], ex))


def tlc_coverage(outp):
    """Parse per-action coverage lines of -coverage 1 (action name -> (distinct, total))."""
    cov = {}
    with open(outp, errors="replace") as f:
        for line in f:
            m = re.match(r"<(\w+) line \d+, col \d+ to line \d+, col \d+ of module (\w+)>: (\d+):(\d+)", line)
            if m:
                cov[m.group(1)] = (int(m.group(3)), int(m.group(4)))
    return cov


# ----------------------------------------------------------------------------- replay
def write_ndjson(path, rows):
    with open(path, "w") as f:
        for r in rows:
            f.write(json.dumps(r, separators=(",", ":")) + "\n")


def read_ndjson(path):
    out = []
    with open(path, errors="replace") as f:
        for line in f:
            line = line.strip()
            if line:
                out.append(json.loads(line))
    return out


def replay_lib(cases_path, trace_path, jobs=14, timeout_s=60):
    t0 = time.time()
    r = subprocess.run([VH, "replay", "--cases", cases_path, "--out", trace_path, "--jobs", str(jobs), "--timeout", str(timeout_s)],
                       capture_output=True, text=True)
    if r.returncode != 0:
        sys.stderr.write(r.stderr[-4000:])
        raise ToolError("replay failed rc=%s" % r.returncode)
    return time.time() - t0


# ----------------------------------------------------------------------------- validation
def shard_trace(trace_path, nshards, prefix, boundary=("Render",), max_events=6000):
    """Split an ndjson trace into shards at case boundaries. Returns (paths, nlines)."""
    lines = [x for x in open(trace_path, errors="replace").read().splitlines() if x.strip()]
    if not lines:
        return [], 0
    target = max(1, min(max_events, (len(lines) + nshards - 1) // nshards))
    chunks, start = [], 0
    for i, x in enumerate(lines):
        if i > start and i - start >= target and _ev(x) in boundary:
            chunks.append((start, i))
            start = i
    chunks.append((start, len(lines)))
    paths = []
    for k, (a, b) in enumerate(chunks):
        p = "%s.%03d.ndjson" % (prefix, k)
        with open(p, "w") as f:
            f.write("\n".join(lines[a:b]) + "\n")
        paths.append(p)
    return paths, len(lines)


def _ev(line):
    m = re.search(r'"ev":"(\w+)"', line)
    return m.group(1) if m else ""


def validate(trace_path, module, cfg, name, parallel=8, boundary=("Render",), max_events=6000, timeout=1500):
    """Run the trace specification over the recorded trace (sharded). Returns
    (verdicts, stats) where verdicts is a list of dicts {idx,id,variant,fails:[{p,w}]}."""
    prefix = os.path.join(BUILD, "tlc", "%s.p%d.shard" % (name, os.getpid()))
    for old in glob.glob(prefix + ".*"):
        os.remove(old)
    paths, nlines = shard_trace(trace_path, parallel, prefix, boundary, max_events)
    verdicts, states, accepted, tool_errors = [], 0, 0, []
    t0 = time.time()

    def run(i_p):
        i, p = i_p
        return tlc(module, cfg, "%s.v%03d" % (name, i), workers=1, env={"TRACE": p}, timeout=timeout, heap="6g")

    with ThreadPoolExecutor(max_workers=parallel) as ex:
        results = list(ex.map(run, list(enumerate(paths))))
    for p, r in zip(paths, results):
        got_accept = False
        with open(r["out"], errors="replace") as f:
            txt = f.read()
        for line in txt.splitlines():
            if line.startswith('<<"ACCEPTED"'):
                got_accept = True
                m = re.search(r"(\d+)>>", line)
                accepted += int(m.group(1)) if m else 0
            elif line.startswith('<<"REJECTED'):
                tool_errors.append("trace rejected: " + line[:600])
        for v in tlc_lines(r["out"], "VERDICT"):
            verdicts.append(v)
        for v in tlc_lines(r["out"], "TOOLERROR"):
            tool_errors.append("harness tool error: " + json.dumps(v)[:400])
        if not got_accept and not any("rejected" in t for t in tool_errors):
            tool_errors.append("TLC did not finish on shard %s: %s" % (p, r["tail"][-1500:]))
        states += r["distinct"]
        if got_accept:
            os.remove(p)
            try:
                os.remove(r["out"])
            except OSError:
                pass
    return verdicts, {"events": nlines, "accepted": accepted, "states": states, "shards": len(paths),
                      "wall": time.time() - t0, "tool_errors": tool_errors}


# ----------------------------------------------------------------------------- known findings
def load_known():
    p = os.path.join(VERIF, "known_findings.json")
    if not os.path.exists(p):
        return {"findings": [], "fixed": []}
    return json.load(open(p))


def abstract_text(s, keep=160):
    """Abstract identifiers and numbers in a code line: used in signatures."""
    s = re.sub(r"--.*", "--c", s)
    s = re.sub(r"\b\d[\w.]*", "1", s)
    kw = {"and", "break", "do", "else", "elseif", "end", "false", "for", "function", "goto", "if", "in", "local", "nil", "not",
          "or", "repeat", "return", "then", "true", "until", "while", "continue"}
    s = re.sub(r"[A-Za-z_]\w*", lambda m: m.group(0) if m.group(0) in kw else "v", s)
    s = re.sub(r"\s+", " ", s).strip()
    return s[:keep]


# ----------------------------------------------------------------------------- evidence
def write_evidence(pid, tier, seed, level, coverage, wall, violations, assumptions):
    ensure_dirs()
    ev = {"property_id": pid, "tier": tier, "seed": int(seed), "level": level, "coverage": coverage,
          "assumptions": assumptions, "wall_s": round(wall, 2), "violations": int(violations)}
    p = os.path.join(VERIF, "evidence", pid + ".json")
    with open(p, "w") as f:
        json.dump(ev, f, indent=1)
    return p


def clean_tmp():
    """Remove this process' scratch files (never another check's: they may be running at the same time)."""
    shutil.rmtree(TMP, ignore_errors=True)
    import glob
    for f in glob.glob(os.path.join(BUILD, "tlc", "*.p%d*" % os.getpid())):
        if os.path.isdir(f):
            shutil.rmtree(f, ignore_errors=True)
        else:
            try:
                os.remove(f)
            except OSError:
                pass
