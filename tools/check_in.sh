#!/bin/sh
# development helper: run a check against another checkout of the repository (a scratch worktree).
# usage: tools/check_in.sh <repo-dir> <ID> [check args...]
# Every build product of such a run lives under build/alt/<hash> (tools/vlib.py), so it can run next to checks of /repo.
V="$(cd "$(dirname "$0")/.." && pwd)"; R="$1"; shift
cd "$V"
VERIF_REPO="$R" ./check "$@"
