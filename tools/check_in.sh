#!/bin/sh
# development helper: run a check against another checkout of the repository (a scratch worktree)
# usage: tools/check_in.sh <repo-dir> <ID> [check args...]
V="$(cd "$(dirname "$0")/.." && pwd)"; R="$1"; shift
cd "$V"
sed -i "s#path = \"/repo\"#path = \"$R\"#" harness/Cargo.toml
VERIF_REPO="$R" ./check "$@"; rc=$?
sed -i "s#path = \"$R\"#path = \"/repo\"#" harness/Cargo.toml
exit $rc
