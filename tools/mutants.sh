#!/bin/sh
# development helper: run every seeded change against the check of its property.
# usage: tools/mutants.sh [<repo-dir>] [seed-id ...]    (default repo: /repo; with a snapshot repo the harness path
# dependency is redirected).  Prints one line per seed: DETECTED / MISSED.
V="$(cd "$(dirname "$0")/.." && pwd)"
R="${1:-/repo}"; [ $# -gt 0 ] && shift
cd "$V"
if [ "$R" != "/repo" ]; then
  export VERIF_REPO="$R"      # build products of such a run live under build/alt/<hash> (tools/vlib.py)
fi
SEEDS="$*"; [ -z "$SEEDS" ] && SEEDS=$(ls seeded)
for s in $SEEDS; do
  p=$(python3 -c "import json;print(json.load(open('seeded/$s/meta.json'))['property'])")
  patch="seeded/$s/patch.rebased.diff"; [ -f "$patch" ] || patch="seeded/$s/patch.diff"
  if ! git -C "$R" apply "$V/$patch" 2>/dev/null; then echo "SEED $s $p PATCH-DOES-NOT-APPLY"; continue; fi
  out=$(./check $p 2>&1); rc=$?
  git -C "$R" checkout -- .
  nv=$(echo "$out" | grep -c "^VIOLATION property=$p")
  if [ $rc -eq 1 ] && [ $nv -gt 0 ]; then echo "SEED $s $p DETECTED rc=$rc violations=$nv :: $(echo "$out" | grep -A1 '^VIOLATION' | sed -n 2p | cut -c1-160)";
  else echo "SEED $s $p MISSED rc=$rc :: $(echo "$out" | tail -1 | cut -c1-200)"; fi
done
