#!/bin/sh
# development helper: rebuild the findings list of known_findings.json from the current tree
# (every entry is a genuine violation re-observed on the real code; classes are described in DESIGN.md 7.4)
cd "$(dirname "$0")/.."
python3 - <<'PY'
import json
k=json.load(open('known_findings.json')); k['findings']=[f for f in k['findings'] if f['property'] in ('C13','C14','C15','C16','C17','C18','C19','C20')]
json.dump(k,open('known_findings.json','w'),indent=1)
PY
desc() { case "$1" in
 C01) echo "output does not re-parse: comment at a position the formatter does not anticipate (line comment followed by code on the same line) / lexer-quirk strings";;
 C02) echo "code tokens or meaning change: code swallowed by / released from a comment at a position the formatter does not anticipate";;
 C03) echo "comment lost / duplicated / code swallowed: comment at a position the formatter does not anticipate (trailing trivia assumed inline; transplant sites carrying 2 of 4 trivia slots)";;
 C04) echo "long-bracket string value changes when line-ending normalisation meets a lone CR";;
 C06) echo "not idempotent: layout decision taken on the input text (removed parentheses, input spans) / comment at an unanticipated position / CRLF comment trivia";;
C07) echo "(see the individual class descriptions) formatting time grows exponentially with the nesting depth of calls that take a function argument: trial formatting in the call-argument heuristics is repeated at every level";;
 C08) echo "ignored text not verbatim";;
 C09) echo "out-of-range text not verbatim";;
 C10) echo "comment re-attached without passing through the token formatter (raw trivia copy): its line endings / position are not normalised";;
 C11) echo "call parentheses kept: the sugar decision is taken before the argument's own redundant parentheses are dropped (f((\"x\")) -> f(\"x\"))";;
 C12) echo "require sorting";;
 *) echo "";; esac; }
for p in C06 C01 C02 C03 C04 C05 C07 C08 C09 C10 C11 C12; do
  ./check $p --triage --emit-known /tmp/k_$p.json 2>&1 | grep -E "TOOL|triage:" | sed "s/^/$p /"
  [ -s /tmp/k_$p.json ] && python3 tools/addknown.py /tmp/k_$p.json "$(desc $p)"
done
# classes that are recognisable from the signature get their own description
python3 - <<'PY'
import json
k=json.load(open('known_findings.json'))
SPECIAL=[
 (lambda s: s.startswith('types|panic|'),
  "the parser (full_moon 1.2.0, parsers.rs:1818, Option::unwrap on None) panics on an invalid Luau type that mixes a leading-separator intersection with a union, and format_code does not turn the panic into a parse error"),
 (lambda s: s.startswith('sortrequires|') and 'range:' in s and 'semi:' in s and ';sort=on' in s,
  "require sorting under a range: positions are recomputed after the group has been sorted, so a statement that was inside the range can fall outside it afterwards - it is then printed unformatted while the semicolon that separated it from a following '(' statement has been dropped with its former neighbour"),
]
n=0
for f in k['findings']:
    for pred,desc in SPECIAL:
        if pred(f['signature']):
            f['class']=desc; n+=1
json.dump(k,open('known_findings.json','w'),indent=1)
print("re-described", n)
PY
