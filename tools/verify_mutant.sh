#!/bin/sh
# development helper: confirm a seeded change in its scratch worktree.
# usage: verify_mutant.sh <worktree>   (expects mutation.patch and demo.sh there, patch currently applied or not)
set -u
W="$1"
cd "$W" || exit 2
git checkout -q -- src 2>/dev/null
git apply mutation.patch || { echo "patch does not apply"; exit 2; }
echo "== build + tests WITH change"
cargo build --offline -j 8 2>&1 | tail -1
cargo build --offline -j 8 --features luau,lua52,lua53,lua54,luajit --target-dir target-all 2>&1 | tail -1
cargo test --workspace --no-fail-fast --offline -j 8 2>&1 | grep -E "^test result" | awk '{p+=$4; f+=$6} END {print "passed=" p " failed=" f}'
cargo build --offline -j 8 2>&1 | tail -1
sh demo.sh > /tmp/demo_with.log 2>&1; echo "demo WITH change: exit $?"
git apply -R mutation.patch
cargo build --offline -j 8 2>&1 | tail -1
sh demo.sh > /tmp/demo_without.log 2>&1; echo "demo WITHOUT change: exit $?"
git apply mutation.patch
