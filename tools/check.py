#!/usr/bin/env python3
"""/verif/check <ID> [--tier quick|thorough] [--replay FILE] [--triage]

G -> R -> V for one property:
  G  TLC explores a generator specification and prints one JSON case per terminal behaviour
  R  the Rust harness replays every case on the real code (rebuilt from /repo's working tree)
     and records an ndjson trace, one event per specification action
  V  TLC validates the trace against the trace specification; every property predicate is
     evaluated at every step; failures come back as verdicts
Exit 0: property held on everything explored (KNOWN-FINDING lines allowed)
Exit 1: at least one `VIOLATION property=<id> replay=<path>` line
Exit 2: tool error / timeout (never a VIOLATION line)
"""
import json, os, sys, time, argparse, random, collections, traceback

sys.path.insert(0, os.path.dirname(os.path.abspath(__file__)))
import vlib
from vlib import log, ToolError
import sources, signatures


def main():
    ap = argparse.ArgumentParser()
    ap.add_argument("prop")
    ap.add_argument("--tier", default=os.environ.get("VERIF_TIER", "quick"))
    ap.add_argument("--replay")
    ap.add_argument("--triage", action="store_true", help="development: print failing signatures, never exit 1")
    ap.add_argument("--emit-known", help="development: write unlisted signatures as candidate entries to this file")
    ap.add_argument("--keep", action="store_true", help="keep intermediate files")
    a = ap.parse_args()
    seed = int(os.environ.get("VERIF_SEED", "0") or 0)
    pid = a.prop.upper()
    tier = a.tier if a.tier in ("quick", "thorough") else "quick"
    t0 = time.time()
    try:
        vlib.ensure_dirs()
        if pid in sources.LIB_PROPS:
            import libcheck
            rc = libcheck.run(pid, tier, seed, a, t0)
        elif pid in sources.CLI_PROPS:
            import clicheck
            rc = clicheck.run(pid, tier, seed, a, t0)
        else:
            log("unknown property", pid)
            rc = 2
    except ToolError as e:
        log("TOOL-ERROR:", e)
        rc = 2
    except Exception:
        traceback.print_exc()
        log("TOOL-ERROR: internal error in check driver")
        rc = 2
    finally:
        vlib.clean_tmp()
    sys.exit(rc)


if __name__ == "__main__":
    main()
